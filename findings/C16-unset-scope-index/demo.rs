use yash_env::variable::{Context, Scope, VariableSet};

/// A variable defined only in the base context, two function calls deep: `unset` with the
/// local scope must leave it alone and report "nothing removed" (documented), not panic.
#[test]
fn unset_local_two_functions_deep_does_not_panic() {
    let mut set = VariableSet::new();
    set.get_or_new("foo", Scope::Global).assign("v", None).unwrap();
    let mut g1 = set.push_context(Context::default());
    let mut g2 = g1.push_context(Context::default());
    let r = g2.unset("foo", Scope::Local);
    assert_eq!(r.map(|v| v.is_some()).unwrap(), false);
    assert!(g2.get("foo").is_some());
}

/// A local variable of a function hiding nothing: `unset` with the local scope must remove it.
#[test]
fn unset_local_removes_the_local_variable() {
    let mut set = VariableSet::new();
    let mut g1 = set.push_context(Context::default());
    g1.get_or_new("foo", Scope::Local).assign("local", None).unwrap();
    let r = g1.unset("foo", Scope::Local).unwrap();
    assert!(r.is_some(), "the local variable is removed and returned");
    assert!(g1.get("foo").is_none());
}
