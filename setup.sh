#!/bin/sh
# Offline setup: nothing is downloaded or cached; every check rebuilds its encoding
# from /repo's working tree in a scratch directory under /var/tmp. This script only
# verifies that the pre-installed engines answer.
set -e
export CARGO_NET_OFFLINE=true
cargo kani --version
cbmc --version
python3 -c "import json, re, subprocess"
python3-vt -c "import z3; print('z3 (python API)', z3.get_version_string())"
/usr/bin/z3 --version
cvc5 --version | head -1
mkdir -p /verif/evidence /verif/replays
echo setup ok
