#!/usr/bin/env python3
"""Regenerates the arm list at the end of harness/incrate/c16_var.rs (one #[kani::proof] per
(step, context shape, occupancy mask))."""
import os
SHAPES = ["r", "rr", "rv", "rrr", "rrv", "rvr", "rvv"]
# "env" (env_c_strings) is not registered: measured - still in symbolic execution after 15 min per arm (memchr in
# str::contains / CString::new on strings whose length depends on symbolic data), even with array formatting cut (T9v),
# and again (900 s cap) with both searches stubbed and only the number of entries asserted
STEPS = ["lookup", "assign", "unset", "pop", "push", "attrs"]
if os.environ.get("VERIF_C16_ENV"):
    STEPS += ["env"]
if os.environ.get("VERIF_DBG"):
    STEPS += ["dbg1", "dbg2", "dbg3"]


def arms():
    out = []
    for s in SHAPES:
        kinds = "[" + ", ".join("true" if c == "r" else "false" for c in s) + "]"
        for m in range(1 << len(s)):
            for st in STEPS:
                if st == "pop" and len(s) < 2:
                    continue
                if st == "push" and len(s) > 2:
                    continue
                if st == "assign" and m == 0 and s[-1] == "v":
                    continue   # measured: a NEW variable under every scope with a volatile context on top: 18 GB after 20 min, no answer
                if st == "attrs" and (m == 0 or s[m.bit_length() - 1] != "r"):
                    continue   # the attrs step addresses the visible entry through Scope::Global: it must be in a regular context
                if st == "env" and m == 0:
                    continue
                out.append(("c16_%s_%s_m%d" % (st, s, m), st, kinds, m))
    return out


def arm_text(selected=None):
    out = ""
    for name, st, kinds, m in arms():
        if selected is None or name in selected:
            out += "arm!(%s, step_%s, %s, %d);\n" % (name, st, kinds, m)
    return out


if __name__ == "__main__":
    print(arm_text())
