#!/bin/sh
# tools/bg.sh start <name> <cmd...>   run a command detached, log to /var/tmp/yv/<name>.log, pid in /var/tmp/yv/<name>.pid
# tools/bg.sh stop <name>             SIGTERM the recorded pid (the check kills its own children)
# tools/bg.sh tail <name> [n]
mkdir -p /var/tmp/yv
case "$1" in
  start) n=$2; shift 2; setsid "$@" > /var/tmp/yv/$n.log 2>&1 < /dev/null & echo $! > /var/tmp/yv/$n.pid; echo started $n ;;
  stop) kill "$(cat /var/tmp/yv/$2.pid)" 2>/dev/null; echo stopped $2 ;;
  tail) tail -n "${3:-10}" /var/tmp/yv/$2.log ;;
esac
