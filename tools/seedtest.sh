#!/bin/sh
# tools/seedtest.sh <PROPERTY> <seed-id> [check args...]
# Runs ./check <PROPERTY> against a scratch copy of /repo with seeded/<seed-id>/patch.diff applied
# (equivalent to `git -C /repo apply` + run + `git -C /repo checkout -- .`, but leaves /repo
# untouched so that other checks can run meanwhile). Result line is appended to /var/tmp/yv/seedtest.log
set -u
prop=$1; seed=$2; shift 2
d=/var/tmp/seedrepo.$seed.$$
rm -rf "$d"; mkdir -p "$d"
rsync -a --exclude /target /repo/ "$d/"
( cd "$d" && git apply /verif/seeded/$seed/patch.diff ) || { echo "$seed: patch does not apply"; rm -rf "$d"; exit 3; }
log=/var/tmp/yv/seed-$seed.log
mkdir -p /var/tmp/yv/seed-evidence
VERIF_EVIDENCE_DIR=/var/tmp/yv/seed-evidence VERIF_REPO="$d" /verif/check "$prop" "$@" > "$log" 2>&1
rc=$?
rm -rf "$d"
echo "$(date +%H:%M:%S) seed=$seed property=$prop exit=$rc $(grep -c '^VIOLATION' $log) violation line(s); $(grep -m1 '^VIOLATION\|^INCONCLUSIVE\|^OK' $log | cut -c1-200)" | tee -a /var/tmp/yv/seedtest.log
exit $rc
