#!/bin/sh
# tools/run_all.sh [quick|thorough] [ids...]: runs the registered checks one after the other in /verif against /repo
# (this is what regenerates evidence/<id>.json); prints exit code and wall time per check.
tier=${1:-quick}; shift 2>/dev/null
ids=${*:-"C01 C02 C03 C04 C07 C10 C11 C12 C14 C16"}
cd "$(dirname "$0")/.." || exit 2
mkdir -p /var/tmp/yv
for id in $ids; do
  t0=$(date +%s)
  ./check "$id" --tier "$tier" > "/var/tmp/yv/all-$id.log" 2>&1
  rc=$?
  echo "$(date +%H:%M:%S) $id tier=$tier exit=$rc wall=$(( $(date +%s) - t0 ))s $(tail -1 /var/tmp/yv/all-$id.log | cut -c1-120)"
done
