#!/usr/bin/env python3
"""Regenerates /verif/MANIFEST.json from the tables below (kept in one place so the
manifest stays valid while checks are added)."""
import json, os
V = os.path.dirname(os.path.dirname(os.path.abspath(__file__)))

TRUST_KANI = ("Trusted: rustc MIR, Kani 0.68 MIR->goto translation and its std models, CBMC 6.11 + CaDiCaL. "
              "Bounded: each obligation states its bound; unwinding assertions are on, so a too-small bound is "
              "an inconclusive run, never green. Harnesses are injected into a fresh snapshot of /repo's working "
              "tree under cfg(kani); /repo itself carries no hooks.")

CHECKS = {
 "C03": dict(
    engine="kani-real + mir2smt",
    technique="bounded model checking (Kani/CBMC SAT) of the real arithmetic kernels over full-width symbolic i64 operands against an i128 oracle, and of the real text tokenizer on symbolic Unicode text / symbolic digit strings; SMT (z3+cvc5) over the nightly MIR for division/remainder and operator tables",
    text=("For every pair of 64-bit operands and every binary operator, the solver shows the real kernel "
          "yash_arith::eval::binary_result returns the exact mathematical value or the documented error "
          "(never a wrapped value); unary/postfix/assignment/lazy-evaluation paths are decided on symbolic "
          "values with AST templates built directly. The text tokenizer (Tokens::next_token) is decided on every text of "
          "<= 2 characters (thorough: 3) over all of Unicode - no panic, progress, token ranges on character boundaries, "
          "token kinds, operators by longest match - and numeric constants of every radix are shown to denote their exact "
          "value or InvalidNumericConstant up to the 2^63 boundary (hex 16-17 digits; thorough: decimal 18-20, octal 21-22). "
          "The parser on longer token sequences and arbitrary long text are outside (DESIGN.md C03)."),
    design_ref="DESIGN.md §6 C03",
    note=TRUST_KANI + " E3 additionally trusts the hand-written MIR->SMT translator (self-validated on every run against the repository's own unit-test vectors) and z3 4.8.12 / cvc5 1.0 agreeing. Tokenizer obligations: the Unicode table walks behind char::is_alphanumeric (core::unicode::unicode_data::{alphabetic,n}::lookup) are stubbed by an arbitrary answer above U+007F (over-approximation)."),
 "C01": dict(
    engine="kani-real",
    technique="bounded model checking (Kani/CBMC SAT) of the real field-splitting, quote-removal, phrase and switch-condition kernels on symbolic character sequences against a POSIX reference splitter; compositional (classification verified per IFS, state machine verified against its specification via kani::stub)",
    text=("Kernels of word expansion decided for every input within the bound: IFS classification (9 IFS values x 16 candidate "
          "characters x all origin/quoting attributes), the splitting state machine and split_into on every sequence of <= 6 "
          "characters over {a, space, -} x all attributes against an XCU 2.6.5 reference splitter, quote removal on <= 5 arbitrary "
          "characters, the phrase algebra behind $@/$* on 81 shape pairs, and the switch condition table (XCU 2.6.2). The initial "
          "expansion itself (parameter forms, $@/$* selection, nounset, read) is outside: it reaches async closures / regex "
          "construction on which Kani 0.68 aborts."),
    design_ref="DESIGN.md §0 and §6 C01",
    note=TRUST_KANI + " Compositional stub: Ifs::classify_attr replaced by its specification in the state-machine obligations."),
 "C02": dict(
    engine="kani-real",
    technique="bounded model checking (Kani/CBMC SAT) of the real command-search classification (classify) on a symbolic environment and of the loop-level kernel (Stack::loop_count, break/continue semantics) over symbolic frame stacks",
    text=("Command search order: for names with and without a slash and every environment answer (built-in present or not, each of "
          "the five built-in types, availability; function present or not) the real classify() picks special built-in > function > "
          "other built-in > PATH, and an external utility without any lookup for a name with a slash. Loop levels: for every stack "
          "of <= 4 frames (each of the 7 frame kinds symbolic) and every requested count, break/continue address exactly the "
          "enclosing loops of the current execution context, capped at the request, and fail iff there is none. Which commands run, "
          "their order and $? are decided inside Command::execute (subshells spawned with async closures: Kani ICE) - outside."),
    design_ref="DESIGN.md §0 and §6 C02",
    note=TRUST_KANI + " CString::default (a C string literal, unsupported by Kani 0.68) is stubbed by an equivalent construction."),
 "C04": dict(
    engine="z3-relang (+ kani-real)", category="translation_validation",
    technique="translation validation by SMT: z3 regular-language equivalence (all string lengths) between the regex the real pattern compiler emits and the POSIX reading, over a bounded-exhaustive pattern family; (prefix / suffix removal: native conformance validation of the real expansion at solver-chosen witness strings - not a decision over all strings); counterexample strings replayed through the real matcher",
    text=("For every pattern of a bounded-exhaustive family (all token sequences up to a length bound over the "
          "metacharacter alphabet, bracket expressions with a probe member over every ASCII punctuation character, "
          "brackets in context, every class name) and all four anchoring configurations (plus literal_period), z3 "
          "proves that the language of the regular expression emitted by the real yash-fnmatch translator equals "
          "the language POSIX pattern notation denotes - for strings of every length. Shortest/longest prefix and "
          "suffix removal is NOT decided for all strings (regex search order has no counterpart in z3's regular-language "
          "theory): the real ${x#pat} ${x##pat} ${x%pat} ${x%%pat} expansion is validated natively at z3-chosen witness "
          "strings (two matching cuts, repeated match, leading period, multi-byte character at the cut) for every pattern "
          "of a second bounded-exhaustive family. case's first-match rule is outside (command execution)."),
    design_ref="DESIGN.md §6 C04",
    note=("Trusted: regex-syntax's parse of the emitted text into HIR (the parser the regex crate uses) and the regex crate "
          "matching per that HIR; z3 5.1 sequence theory; the reference POSIX reading (e2/relang.py, POSIX locale). The "
          "is_match glue is hand-modelled and validated natively on solver-produced witnesses on every run. Patterns POSIX "
          "leaves unspecified are skipped and counted.")),
 "C07": dict(
    engine="kani-real",
    technique="bounded model checking (Kani/CBMC SAT) of the real quoting function (decision and printed form) on symbolic strings of up to three characters over all of Unicode, against a reference reader of one shell word that calls the real lexer's blank/delimiter predicates",
    text=("For every Unicode scalar value c (one symbolic char) and for the empty string: whenever the shell would not read the "
          "unquoted character back literally (per the real lexer's blank/delimiter predicates), yash_quote decides to quote it. "
          "For every string of one or two characters (each any Unicode scalar value; three ASCII characters; thorough: four) the "
          "PRINTED form produced by the real Display implementation is read back by a reference word reader (XCU 2.2/2.3/2.6/2.13: "
          "single quotes, double quotes with their four escapes, live $ and backquote, first-position # and ~, :~, = after the "
          "first character, [..] and {..}) as exactly the original string, and unquoted output is produced only for strings the "
          "shell reads literally. Longer strings, reading back through the real lexer, and all state listings are outside "
          "(parser / command execution)."),
    design_ref="DESIGN.md §0 and §6 C07",
    note=TRUST_KANI + " Transform T8: the one formatted write `write!(f, \"'{}'\", raw)` is spelled out as three plain writes under cfg(kani) (core::fmt's argument machinery ran CBMC out of memory). Stubs: <&str as Pattern>::is_contained_in and core::slice::memchr::memchr replaced by naive searches with the same contract."),
 "C10": dict(
    engine="kani-real",
    technique="bounded model checking (Kani/CBMC SAT) of the real errexit decision kernel (Env::errexit_is_applicable, apply_errexit) over symbolic frame stacks, option and exit status, and of the shell-error handlers of handle.rs",
    text=("For every stack of <= 4 frames (each frame kind symbolic), errexit on/off and every exit status: errexit applies iff the "
          "option is on and no condition frame is anywhere on the stack, and then exits iff the status is non-zero. The error "
          "handlers return the documented outcome for every errexit/stack/status combination: expansion error -> interrupt with "
          "status 2 (exit under applicable errexit), interrupted expansion keeps its status, syntax error -> interrupt with status "
          "2, redirection error -> only $? = 2 and execution continues. Where condition frames are pushed, special vs regular "
          "built-ins and the EXIT trap count are command execution (async closures) - outside."),
    design_ref="DESIGN.md §0 and §6 C10",
    note=TRUST_KANI + " RandomState::new stubbed with fixed keys; T3: diagnostic printing in handle.rs compiled out under cfg(kani)."),
 "C11": dict(
    engine="kani-real",
    technique="bounded model checking (Kani/CBMC SAT): inductive steps of the real trap-state operations from an arbitrary per-signal record satisfying the installed-disposition invariant, on a stub signal system; table-level steps on TrapSet",
    text=("One operation (set_action with/without override, set_internal_disposition, enter_subshell with each option, ignore, "
          "catch/take) from ANY trap record satisfying 'installed disposition = max(internal, trap action)' re-establishes it, calls "
          "the system exactly once iff the effective disposition changes, refuses signals ignored on entry, never traps KILL/STOP; "
          "subshell entry resets command traps, keeps ignores (and their untrappable marker), keeps SIGCHLD's handler; each caught "
          "signal is handed out exactly once. The step covers histories of any length. Running the action at the next command "
          "boundary is command execution - outside."),
    design_ref="DESIGN.md §0 and §6 C11",
    note=TRUST_KANI + " Transforms T1b (BTreeMap -> 4-slot association list), T7/T7b (Location / command text in trap records -> unit stand-ins)."),
 "C12": dict(
    engine="kani-real",
    technique="bounded model checking (Kani/CBMC SAT): inductive steps of every real JobList operation from an arbitrary 3-slot table satisfying the five-clause invariant; extract_if by induction over the iterator with remove replaced by its verified contract",
    text=("One operation (insert incl. pid reuse, remove, update_status, set_current_job, one extract_if step, bookkeeping, job-ID "
          "resolution) from ANY 3-slot job table satisfying the invariant (current/previous job rules, pid index, stable indices) "
          "re-establishes it and has the documented effect; the empty table satisfies it. One inductive step covers histories of "
          "every length over tables of <= 3 jobs. %string lookup and the jobs/fg/bg built-ins are outside."),
    design_ref="DESIGN.md §0 and §6 C12",
    note=TRUST_KANI + " Transform T1 (HashMap -> association list). slab is the real crate."),
 "C16": dict(
    engine="kani-real",
    technique="bounded model checking (Kani/CBMC SAT): simulation steps of the real VariableSet operations (get, get_scoped, get_or_new + assign, unset, context pop/push, export / read-only marks) against a stack-of-scopes reference model, from every context-stack shape of <= 3 contexts and every occupancy of one variable name, entry contents symbolic",
    text=("One operation on ANY variable set over <= 3 contexts (each regular or volatile; one name present in any subset of the "
          "contexts; value / exported / read-only of every entry symbolic) behaves as the scope documentation says: lookup returns "
          "the entry of the innermost context within the scope; assignment goes to the documented context, lowering or cloning "
          "temporary (volatile) variables as documented; a read-only variable is neither modified nor unset and the refused "
          "operation changes nothing; leaving a context removes exactly that context's entries (locals and temporary assignments "
          "vanish, outer variables persist); other variables are untouched. The step covers histories of any length over such "
          "sets. Which command kinds push/pop which contexts and the environment passed to programs (env_c_strings: built, no "
          "answer in 15 min per arm) are outside."),
    design_ref="DESIGN.md §0 and §6 C16",
    note=TRUST_KANI + " Transforms T1c (HashMap / per-name Vec -> heap-light stand-ins with the same contract, one boxed cell per record) and T7v (Location stored in a Variable -> unit stand-in)."),
 "C14": dict(
    engine="kani-real",
    technique="bounded model checking (Kani/CBMC SAT): inductive steps of the real pipe buffer of the simulated system (FileBody::Fifo poll_write / poll_read) from every fill level, for every request size up to beyond the capacity, byte values and reader / writer counts symbolic",
    text=("One read or one write on ANY pipe state follows the POSIX pipe rules: a write is refused with EPIPE without readers; a "
          "request that fits is accepted completely; one that does not fit blocks without accepting anything when it is atomic "
          "(<= PIPE_BUF) or the pipe is full, and otherwise fills exactly the free room; the pipe never exceeds its capacity; a read "
          "blocks only on an empty pipe that still has a writer, delivers min(request, available) bytes from the front IN ORDER and "
          "removes exactly those; end of file only without writers; peers are woken exactly when bytes arrive / room is made. The "
          "write(2) loop above the buffer (poll_write_full) advances its running total by exactly what the pipe accepted, completes only "
          "when everything is transferred and never splits an atomic rest. One "
          "step covers every interleaving of reads and writes on a pipe, for payloads beyond the capacity. Not decided: the stored "
          "order of the bytes accepted by a write (std VecDeque::extend; measured out of memory), the transfer loops above the "
          "buffer, pipeline wiring, command substitution's trailing-newline removal and here-documents (async closures / "
          "concurrency)."),
    design_ref="DESIGN.md §0 and §6 C14",
    note=TRUST_KANI + " Transforms T6 (PIPE_BUF scaled from 512 to 4; PIPE_SIZE = 2 x PIPE_BUF follows) and T10 (WakerSet -> counting stand-in)."),
}

NOT_APPLICABLE = {
 "C05": "glob.rs interleaves directory reads with regex construction/matching; Kani 0.68 aborts (ICE in regex_automata codegen) on any harness from which regex::Regex construction is reachable; component language is covered under C04",
 "C06": "real parser: CBMC exhausts 24 GB on the concrete input 'a b' (async recursive descent, dyn Future); symbolic text out of reach; a grammar model would not be the real code",
 "C08": "subshell entry is built on async closures (Kani 0.68 ICE) and whole-Env cloning; the trap-reset clause is decided under C11",
 "C09": "built and abandoned: one redirection through the real perform() on a 6-descriptor stub system (T2 expansion models, narrowed bound, recursion bound on Location drop glue, futures never dropped) was still in symbolic execution at 8-12 GB after 31 min and ran out of memory; the saved-descriptor leak on failed redirections is visible by reading only",
 "C13": "concurrency/schedules: Kani does not model concurrent code; wait_for_subshell over a symbolic-schedule kernel stub gave no answer in 40 min; child start sites are async closures (Kani ICE)",
 "C15": "executor Task/Waker: Rc<RefCell<VecDeque<Rc<Task>>>> + dyn Future + RawWaker vtable fan-out; three formulations (history, step lemma, Task::wake alone) all exceeded 10 GB or 25 min",
 "C17": "alias substitution lives inside the lexer/parser on which CBMC runs out of memory even for concrete input (see C06)",
 "C18": "FdReader2::next_line single arm ran the SAT back end out of memory (UTF-8 validation of symbolic bytes); the rest is parser + read-eval loop (command execution)",
 "C19": "one side of the comparison is the host kernel behind libc FFI; nothing to encode",
 "C20": "parse_arguments on Fields with Locations: 11-12 GB even with concrete two-field vectors; per-built-in effects need built-ins to run (command execution, async closures)",
}

# properties whose quick check has run green on the unchanged tree in this sandbox
ENABLED = ["C01", "C02", "C03", "C04", "C07", "C10", "C11", "C12", "C14", "C16"]


def main():
    checks = []
    for pid in sorted(CHECKS):
        if pid not in ENABLED:
            continue
        c = CHECKS[pid]
        checks.append({
            "property_id": pid,
            "quick_cmd": "./check %s --tier quick" % pid,
            "thorough_cmd": "./check %s --tier thorough" % pid,
            "evidence_file": "/verif/evidence/%s.json" % pid,
            "replay_cmd_template": "./check %s --replay {path}" % pid,
            "engine": c["engine"],
            "level_claimed": {"category": c.get("category", "model_checking"), "text": c["text"], "design_ref": c["design_ref"]},
            "level_note": c["note"],
            "technique": c["technique"],
        })
    na = [{"property_id": k, "reason": v} for k, v in sorted(NOT_APPLICABLE.items()) if k not in ENABLED]
    for i in range(1, 21):
        k = "C%02d" % i
        if (k not in CHECKS or k not in ENABLED) and k not in NOT_APPLICABLE:
            na.append({"property_id": k, "reason": "check designed (DESIGN.md) but not yet built and measured in this tree; not claimed until it runs green"})
    na.sort(key=lambda d: d["property_id"])
    m = {
        "version": 1,
        "setup_cmd": "./setup.sh",
        "hooks": {
            "guard": "cfg(kani) (set only by the Kani compiler inside the scratch snapshot; no source hooks are committed to /repo)",
            "enable": "checks copy /repo's working tree to /var/tmp/yash-verif.*/ws, append `#[cfg(kani)] #[path=...] mod verif_*;` lines and the listed snapshot transforms there, and run `cargo kani` on the copy",
            "baseline_off_cmd": "cd /repo && cargo test --workspace --no-fail-fast --offline",
            "source_commits": [],
            "add_only": True,
        },
        "engines": [
            {"name": "kani-real", "path": "/verif/vlib/core.py", "serves_properties": [p for p in sorted(CHECKS) if p in ENABLED],
             "kind_free_text": "Kani 0.68 / CBMC 6.11 bounded model checking of the real compiled code; harnesses in /verif/harness"},
            {"name": "z3-relang", "path": "/verif/e2", "serves_properties": ["C04"],
             "kind_free_text": "z3 regular-language equivalence between the regex emitted by the real yash-fnmatch translator and a POSIX reference construction"},
            {"name": "mir2smt", "path": "/verif/e3", "serves_properties": ["C03"],
             "kind_free_text": "nightly MIR of yash-arith kernels translated to SMT-LIB2 bit-vectors; z3 and cvc5 must agree"},
        ],
        "checks": checks,
        "not_applicable": na,
        "notes": ("Exit codes of every check: 0 held within stated bounds; 1 replay-confirmed violation "
                  "(VIOLATION line); 2 inconclusive (cap reached, harness no longer compiles, counterexample "
                  "did not reproduce natively) - not a verdict. Known findings: /verif/known_findings.txt."),
    }
    with open(os.path.join(V, "MANIFEST.json"), "w") as f:
        json.dump(m, f, indent=1)
    print("MANIFEST.json: %d checks, %d not applicable" % (len(checks), len(na)))

if __name__ == "__main__":
    main()
