"""C10 — the script aborts exactly when errexit or a shell error says so (decision kernels)."""
from vlib import core
from vlib.core import Harness

PID = "C10"


def setup(w):
    d = w.ext_crate("envk")
    return core.KaniSession(w, d, tag="envk", zflags=["stubbing"])


def harnesses(tier):
    fns = ["yash_env::Env::errexit_is_applicable", "yash_env::Env::apply_errexit"]
    b = "stack of %s frames (length arm-concrete, each frame kind of 7 symbolic); errexit option, exit status (all i32) symbolic"
    stubs = ["std::hash::RandomState::new -> fixed keys (HashMap::default would call getrandom)"]
    hs = [Harness("c10_errexit_%d" % n, b % str(n), fns, "errexit applies iff option on and no Condition frame anywhere",
                  timeout=1200, stubs=stubs, cover_group="c10_errexit", recursion_bounds=core.LOCATION_RECURSION)
          for n in range(0, 5)]
    return hs


def run(tier, seed, only=None):
    out = core.Outcome(PID, tier, seed)
    out.engines = ["E1 kani 0.68 / CBMC 6.11 / CaDiCaL"]
    out.assumptions = [
        "Env built by Env::with_system on a 4-method GetPid stub; RandomState::new stubbed with fixed keys",
        "only the decision kernels are decided: where Condition frames are pushed (and_or.rs, pipeline.rs, if/while), the "
        "special/regular built-in divergence and the EXIT trap count are command execution (async closures; Kani ICE) - outside",
    ]

    def body():
        w = core.Workspace("c10")
        sess = setup(w)
        hs = [h for h in harnesses(tier) if not only or h.name in only]
        res = sess.run_all(hs, jobs=4)
        out.extra.update({"kani_build_s": round(sess.build_s, 1), "repo_state": w.repo_state,
                          "injected": w.injected, "transforms": w.transforms})
        out.add_kani_results(res, sess, core.load_known(PID), PID)

    return core.guarded(out, body, trusted=["rustc MIR", "Kani 0.68", "CBMC 6.11", "CaDiCaL"])


def replay(path):
    return core.generic_replay(PID, path, setup)
