"""C10 — the script aborts exactly when errexit or a shell error says so (decision kernels)."""
from vlib import core
from vlib.core import Harness

PID = "C10"


def setup(w):
    d = w.ext_crate("envk")
    return core.KaniSession(w, d, tag="envk", zflags=["stubbing"])


def harnesses(tier):
    fns = ["yash_env::Env::errexit_is_applicable", "yash_env::Env::apply_errexit"]
    b = "stack of %s frames (length arm-concrete, each frame kind of 7 symbolic); errexit option, exit status (all i32) symbolic"
    stubs = ["std::hash::RandomState::new -> fixed keys (HashMap::default would call getrandom)"]
    hs = [Harness("c10_errexit_%d" % n, b % str(n), fns, "errexit applies iff option on and no Condition frame anywhere",
                  timeout=1200, stubs=stubs, cover_group="c10_errexit", recursion_bounds=core.LOCATION_RECURSION)
          for n in range(0, 5)]
    return hs


MH = "handle::verif_c10_handle"


def setup_handle(w, name=""):
    w.transform("T3 diagnostic printing (print_report + to_report) compiled out under cfg(kani)", "yash-semantics/src/handle.rs",
                "        print_report(env, &self.to_report()).await;",
                "        #[cfg(not(kani))]\n        print_report(env, &self.to_report()).await;", count=3)
    w.inject("yash-semantics/src/handle.rs", "c10_handle.rs")
    return core.KaniSession(w, w.ws, pkg="yash-semantics", tag="sem", zflags=["stubbing"])


def handle_harnesses():
    H = "yash_semantics::handle::"
    st = ["std::hash::RandomState::new -> fixed keys", "T3: print_report(...) compiled out"]
    b = "errexit option, exit status (all i32), 0-2 frames (condition / loop / subshell) symbolic"
    return [
        Harness("c10_handle_expansion_error", b + "; cause: interrupted (status: all i32) or command-substitution error",
                [H + "<expansion::Error as Handle>::handle", "yash_env::Env::errexit_is_applicable"],
                "expansion error: interrupt with status 2, exit under applicable errexit; interruption keeps its status",
                timeout=1200, mod=MH, stubs=st, recursion_bounds=core.LOCATION_RECURSION),
        Harness("c10_handle_redirection_error", b, [H + "<redir::Error as Handle>::handle"],
                "redirection error only sets $? = 2 and execution continues", timeout=1200, mod=MH, stubs=st,
                recursion_bounds=core.LOCATION_RECURSION),
        Harness("c10_handle_syntax_error", b, [H + "<parser::Error as Handle>::handle"],
                "syntax error interrupts with status 2", timeout=1200, mod=MH, stubs=st,
                recursion_bounds=core.LOCATION_RECURSION),
    ]


def run(tier, seed, only=None):
    out = core.Outcome(PID, tier, seed)
    out.engines = ["E1 kani 0.68 / CBMC 6.11 / CaDiCaL"]
    out.assumptions = [
        "Env built by Env::with_system on a 4-method GetPid stub; RandomState::new stubbed with fixed keys",
        "only the decision kernels are decided: where Condition frames are pushed (and_or.rs, pipeline.rs, if/while), the "
        "special/regular built-in divergence and the EXIT trap count are command execution (async closures; Kani ICE) - outside",
    ]

    def body():
        w = core.Workspace("c10")
        sess = setup(w)
        hs = [h for h in harnesses(tier) if not only or h.name in only]
        res = sess.run_all(hs, jobs=5) if hs else []
        out.extra.update({"kani_build_s": round(sess.build_s, 1), "repo_state": w.repo_state,
                          "injected": w.injected, "transforms": w.transforms})
        out.add_kani_results(res, sess, core.load_known(PID), PID)
        hh = [h for h in handle_harnesses() if not only or h.name in only]
        if hh:
            s2 = setup_handle(w)
            res2 = s2.run_all(hh, jobs=3)
            out.extra["kani_build_s_handle"] = round(s2.build_s, 1)
            out.extra["injected"] = w.injected
            out.extra["transforms"] = w.transforms
            out.add_kani_results(res2, s2, core.load_known(PID), PID)

    return core.guarded(out, body, trusted=["rustc MIR", "Kani 0.68", "CBMC 6.11", "CaDiCaL"])


def replay(path):
    with open(path) as f:
        is_handle = "c10_handle_" in f.read(400)
    return core.generic_replay(PID, path, setup_handle if is_handle else setup)
