"""C03 — arithmetic is exact 64-bit C arithmetic or an error. See DESIGN.md §6 C03."""
from vlib import core
from vlib.core import Harness

PID = "C03"
F_BIN = "yash_arith::eval::binary_result"


def setup(w):
    w.inject("yash-arith/src/eval.rs", "c03_eval.rs")
    return core.KaniSession(w, w.ws, pkg="yash-arith", tag="arith")


M = "eval::verif_c03_eval"


def harnesses(tier):
    hs = [
        Harness("c03_addsub", "lhs, rhs: all i64; op in {+,+=,-,-=}", [F_BIN], "exact value or Overflow", timeout=600, mod=M),
        Harness("c03_mul", "lhs, rhs: all i64; op in {*,*=}", [F_BIN], "exact value or Overflow", timeout=1200, mod=M),
        Harness("c03_bitwise_logical_compare", "lhs, rhs: all i64; 15 total operators", [F_BIN],
                "bitwise/logical/comparison value", timeout=600, mod=M),
        Harness("c03_shift", "lhs, rhs: all i64; op in {<<,<<=,>>,>>=}", [F_BIN],
                "shift value or documented error kind", timeout=600, mod=M),
        Harness("c03_divrem_bounded", "operands in [-256,255] ∪ {MIN,MIN+1,MAX-1,MAX}; op in {/,/=,%,%=}",
                [F_BIN], "quotient/remainder or DivisionByZero/Overflow", timeout=1200, mod=M),
    ]
    return hs


def run(tier, seed, only=None):
    out = core.Outcome(PID, tier, seed)
    out.engines = ["E1 kani 0.68 / CBMC 6.11 / CaDiCaL"]
    out.assumptions = [
        "Kani models the dev profile (overflow checks on)",
        "bounded: see per-obligation 'bound'; unwinding assertions enabled",
    ]

    def body():
        w = core.Workspace("c03")
        sess = setup(w)
        hs = [h for h in harnesses(tier) if not only or h.name in only]
        res = sess.run_all(hs, jobs=6)
        out.extra["kani_build_s"] = round(sess.build_s, 1)
        out.extra["repo_state"] = w.repo_state
        out.extra["injected"] = w.injected
        out.extra["transforms"] = w.transforms
        out.add_kani_results(res, sess, core.load_known(PID), PID)

    return core.guarded(out, body, trusted=["rustc MIR", "Kani 0.68 MIR->goto", "CBMC 6.11", "CaDiCaL"])


def replay(path):
    return core.generic_replay(PID, path, setup)
