"""C03 — arithmetic is exact 64-bit C arithmetic or an error. See DESIGN.md §6 C03."""
import os

from vlib import core
from vlib.core import Harness

PID = "C03"
F_BIN = "yash_arith::eval::binary_result"


def setup(w, name="", tier="thorough"):
    w.inject("yash-arith/src/eval.rs", "c03_eval.rs")
    w.inject("yash-arith/src/ast.rs", "c03_ast.rs")
    w.inject("yash-arith/src/token.rs", "c03_token.rs")
    if tier == "quick":
        w.strip_thorough("c03_token.rs")
    return core.KaniSession(w, w.ws, pkg="yash-arith", tag="arith", zflags=["stubbing"])


M = "eval::verif_c03_eval"


def harnesses(tier):
    hs = [
        Harness("c03_addsub", "lhs, rhs: all i64; op in {+,+=,-,-=}", [F_BIN], "exact value or Overflow", timeout=600, mod=M),
        Harness("c03_mul", "lhs, rhs: all i64; op in {*,*=}", [F_BIN], "exact value or Overflow", timeout=1200, mod=M),
        Harness("c03_bitwise_logical_compare", "lhs, rhs: all i64; 15 total operators", [F_BIN],
                "bitwise/logical/comparison value", timeout=600, mod=M),
        Harness("c03_shift", "lhs, rhs: all i64; op in {<<,<<=,>>,>>=}", [F_BIN],
                "shift value or documented error kind", timeout=600, mod=M),
        Harness("c03_divrem_bounded", "operands in [-256,255] ∪ {MIN,MIN+1,MAX-1,MAX}; op in {/,/=,%,%=}",
                [F_BIN], "quotient/remainder or DivisionByZero/Overflow", timeout=1200, mod=M),
    ]
    hs += [
        Harness("c03_unary_on_values", "operand: all i64; + - ! ~ and ++ -- (prefix, postfix) applied to a value",
                ["yash_arith::eval::apply_prefix", "yash_arith::eval::apply_postfix"],
                "exact value, Overflow for -MIN, AssignmentToValue for ++/-- on a non-variable; nothing assigned", timeout=900, mod=M),
    ]
    VARSTUB = ["expand_variable -> the variable holds a symbolic i64 (str::parse cut)", "assign -> records the assigned i64 (to_string cut)"]
    AB = ["yash_arith::eval::apply_binary", F_BIN]
    hs += [
        Harness("c03_compound_assign_linear", "variable value and right operand: all i64; += -= |= ^= &= <<= >>=", AB,
                "a op= b computes a op b (same value or same error kind), assigns exactly that value once, assigns nothing on error",
                timeout=900, mod=M, stubs=VARSTUB),
        Harness("c03_compound_assign_mul", "variable value and right operand: all i64; *=", AB,
                "a *= b computes a * b or Overflow, assigns once / nothing", timeout=1500, mod=M, stubs=VARSTUB),
        Harness("c03_compound_assign_divrem_bounded", "operands in [-256,255] ∪ {MIN,MIN+1,MAX}; /= %=", AB,
                "a /= b, a %= b as the plain operators; nothing assigned on DivisionByZero / Overflow", timeout=1200, mod=M, stubs=VARSTUB),
        Harness("c03_incdec_on_variable", "variable value: all i64; ++x --x x++ x--",
                ["yash_arith::eval::apply_prefix", "yash_arith::eval::apply_postfix"],
                "prefix yields the new value, postfix the old one, the new value is assigned once; Overflow at the edges assigns nothing",
                timeout=600, mod=M, stubs=VARSTUB),
    ]
    for n in ((3,) if tier == "quick" else (1, 2, 3, 4)):
        words = ["10", "010", "0x1", "08", "007", "0X1f", "1e1", "9z", "0", "00", "0x10", "042"]
        hs.append(Harness("c03_variable_constant_%d" % n, "every word of %d ASCII letters / digits starting with a digit" % n,
                          ["yash_arith::eval::expand_variable", "yash_arith::token::Tokens::next_token"],
                          "$((x)) and $(($x)) agree: when the text of x is read as the constant c by the tokenizer and the variable "
                          "expansion yields a value, that value is c", timeout=1200, mem_gb=12, mod=M,
                          stubs=["core::unicode::unicode_data::{alphabetic,n}::lookup -> arbitrary bool above U+007F"],
                          cbmc_unwind=n + 6, loop_bounds=[(r"token::Operator\)> as std::iter::Iterator>::try_fold", 39)],
                          native_cases=[[(ord(ch), 1) for ch in w] for w in words if len(w) == n], cover_group="c03_variable_constant"))
    for nm, tpl in [("or", "l || 1/0"), ("and", "l && 1/0")]:
        hs.append(Harness("c03_lazy_" + nm, "template `%s` built as an AST; c / l: all i64" % tpl,
                          ["yash_arith::eval::eval", "yash_arith::eval::apply_binary", "yash_arith::eval::into_value"],
                          "unevaluated operands are not evaluated (raise nothing); the evaluated one is; && || yield 0/1",
                          timeout=900, mod=M))
    EVAL_RX = r"^(yash_arith::)?eval::eval::<"
    for nm, tpl, depth in [("select", "c ? a : b (c, a, b: all i64)", 2)]:
        hs.append(Harness("c03_cond_" + nm, "template `%s` built as an AST; eval() recursion bounded to %d "
                          "levels with the recursion unwinding assertion kept" % (tpl, depth),
                          ["yash_arith::eval::eval", "yash_arith::eval::into_value"],
                          "?: yields its second operand iff the first is non-zero, else the third",
                          timeout=600, mem_gb=16, mod=M, recursion_bounds=[(EVAL_RX, depth)]))
    MA = "ast::verif_c03_ast"
    T = ["yash_arith::ast::Operator::precedence", "yash_arith::ast::Operator::as_binary", "yash_arith::ast::Operator::as_prefix",
         "yash_arith::ast::Operator::as_postfix"]
    hs += [
        Harness("c03_operator_tables", "every pair of the 37 operator tokens", T,
                "precedence and associativity follow ISO C 6.5; each token denotes its C operator", timeout=600, mod=MA),
    ]
    MT = "token::verif_c03_token"
    FT = ["yash_arith::token::Tokens::next_token"]
    UNI = ["core::unicode::unicode_data::{alphabetic,n}::lookup -> arbitrary bool above U+007F (over-approximation of the Unicode tables)"]
    # the 37-entry operator table is scanned by Iterator::find
    OPTABLE = (r"token::Operator\)> as std::iter::Iterator>::try_fold", 39)
    ASCII = list(range(0, 128))
    CANDS = {"1": ASCII,
             "2": [0xE9, 0xD7, 0xA0, 0x85, 0xAD, 0xB5, 0xDF, 0x3A9, 0x44F, 0x663, 0x5D0, 0x7FF],
             "3": [0x3042, 0x20AC, 0x3000, 0x2003, 0x2028, 0x0E53, 0x4E2D, 0x800, 0xFFFD, 0xFEFF],
             "4": [0x1F600, 0x1D7D9, 0x10400, 0x10000, 0x10FFFF]}

    def text_h(name, ws, what, fixed_first=False):
        sym = ws[1:] if fixed_first else ws
        return Harness(name, what, FT,
                       "tokenizer total (no panic, progress, ranges on character boundaries inside the text), token kind "
                       "determined by the first character, operators by longest match", timeout=1500,
                       # measured: 12 GB is not enough for several arms of three characters / two wide characters
                       mem_gb=20 if (len(ws) >= 3 or sum(int(c) for c in ws) >= 4) else 12, mod=MT,
                       stubs=UNI, cover_group="c03_text", cbmc_unwind=sum(int(c) for c in ws) + 3, loop_bounds=[OPTABLE],
                       native_enum=[CANDS[c] for c in sym])

    for ws in (["1", "2"] if tier == "quick" else ["1", "2", "3", "4"]):
        hs.append(text_h("c03_text_w" + ws, ws, "every text of ONE character of UTF-8 width %s (any Unicode scalar value of that width)" % ws))
    firsts = [("one", "1"), ("zero", "0"), ("a", "a"), ("us", "_"), ("plus", "+"), ("lt", "<"), ("sp", " "), ("dollar", "$")]
    # quick: the second-position cases that exercise distinct code (a constant followed by a character of each width, a name
    # continued by a non-ASCII character, two-character operators); thorough: the full product and three-character texts
    QUICK = {"one_w2", "a_w2", "plus_w1"}
    for nm, ch in firsts:
        for ws in ["11", "12", "13", "14"] + (["111", "112", "121"] if tier == "thorough" else []):
            key = "%s_w%s" % (nm, ws[1:])
            if tier == "quick" and key not in QUICK:
                continue
            hs.append(text_h("c03_text_" + key, ws,
                             "every text %r + %d further character(s) of UTF-8 widths %s, each any Unicode scalar value of that width"
                             % (ch, len(ws) - 1, "+".join(ws[1:])), fixed_first=True))
    if tier == "thorough":
        for ws in ["11", "12", "13", "14", "21", "22", "31", "41", "111"]:
            hs.append(text_h("c03_text_w" + ws, ws, "every text of %d characters with UTF-8 widths %s, each any Unicode scalar value "
                             "of that width" % (len(ws), "+".join(ws))))
    consts = ["hex_0", "hex_16", "dec_any_3", "hex_any_3"]
    if tier == "thorough":
        consts += ["oct_any_3", "hex_1", "dec_1", "oct_0", "hex_15", "hex_16u", "hex_17", "dec_18", "dec_19", "dec_20", "oct_21", "oct_22"]
    def const_cases(c):
        """Explicit inputs for the native enumeration replay: the boundary constants of the radix with that many digits."""
        radix = {"hex": 16, "dec": 10, "oct": 8}[c.split("_")[0]]
        nd = int(c.split("_")[-1].rstrip("u"))
        digs = "0123456789abcdef"
        def to_radix(v):
            s = ""
            while v:
                s = digs[v % radix] + s
                v //= radix
            return s or "0"
        words = set()
        for v in (2**63 - 1, 2**63, 2**63 + 1, 2**64 - 1, 2**64, 2**62, 1, 0, radix**nd - 1 if nd else 0, radix**(nd - 1) if nd else 0):
            s = to_radix(v)
            if len(s) <= nd:
                words.add(s.rjust(nd, "0"))
                words.add(s.upper().rjust(nd, "0"))
        if "any" in c:
            words |= {"0x1", "0X1", "x10", "1z2", "g12", "1_2", "12a", "09a", "089", "1e3"}
        out = []
        for wd in sorted(words):
            if len(wd) == nd:
                out.append([(ord(ch), 1) for ch in wd])
        return out

    for c in consts:
        hs.append(Harness("c03_const_" + c, "constant with prefix/radix %s and %s symbolic digit characters"
                          % (c.split("_")[0], c.split("_")[-1]), FT + ["core::num::<impl i64>::from_str_radix"],
                          "a constant denotes its exact mathematical value, or InvalidNumericConstant when malformed or not "
                          "representable in i64 (never a wrapped value)", timeout=2400, mem_gb=12, mod=MT, stubs=UNI,
                          cover_group="c03_const",
                          cbmc_unwind=int(c.split("_")[-1].rstrip("u")) + 6, loop_bounds=[OPTABLE], native_cases=const_cases(c)))
    if tier == "quick":
        # the quick command must finish within 900 s where it is used: 16 obligations, one per core (the tokenizer arms take
        # 400-450 s each when they have a core to themselves, 700+ s when 25 obligations share 16 cores); the rest is thorough
        keep = {"c03_addsub", "c03_mul", "c03_bitwise_logical_compare", "c03_shift", "c03_divrem_bounded", "c03_unary_on_values",
                "c03_incdec_on_variable", "c03_compound_assign_linear", "c03_lazy_or", "c03_cond_select", "c03_operator_tables",
                "c03_text_w2", "c03_text_one_w2", "c03_const_hex_16", "c03_const_hex_any_3", "c03_variable_constant_3"}
        hs = [h for h in hs if h.name in keep]
    return hs


def run_e3(w, out):
    """E3: MIR -> SMT for binary_result, all 29 operators, full 64-bit (incl. / and %)."""
    import json
    import os
    env = dict(core.ENV)
    env["CARGO_TARGET_DIR"] = os.path.join(w.root, "target-mir")
    mir = os.path.join(w.root, "arith.mir")
    import subprocess
    p = subprocess.run(["cargo", "+nightly", "rustc", "--offline", "--lib", "--", "-Zunpretty=mir",
                        "-C", "debug-assertions=off", "-C", "overflow-checks=on"],
                       cwd=os.path.join(w.ws, "yash-arith"), env=env,
                       capture_output=True, text=True)
    if p.returncode != 0 or "fn binary_result" not in p.stdout:
        out.inconclusive.append("E3: MIR dump failed: " + p.stderr[-300:])
        return
    with open(mir, "w") as f:
        f.write(p.stdout)
    d = w.ext_crate("arith_driver")
    env2 = dict(core.ENV)
    env2["CARGO_TARGET_DIR"] = os.path.join(w.root, "target-arith-driver")
    rc, o, _ = core.run_cmd(["cargo", "build", "--offline", "--quiet"], d, 900, env=env2)
    exe = os.path.join(env2["CARGO_TARGET_DIR"], "debug", "arith_driver")
    if rc != 0 or not os.path.exists(exe):
        out.inconclusive.append("E3: native driver does not build: " + o[-300:])
        return
    res_path = os.path.join(w.root, "e3.json")
    rc, o, dt = core.run_cmd(["python3-vt", os.path.join(core.VERIF, "e3", "run_e3.py"), "--mir", mir,
                              "--src", os.path.join(w.ws, "yash-arith", "src", "ast.rs"), "--driver", exe, "--out", res_path],
                             core.VERIF, 1800)
    core.log(o.strip()[-400:])
    if rc != 0 or not os.path.exists(res_path):
        out.inconclusive.append("E3 runner failed: " + o[-300:])
        return
    with open(res_path) as f:
        r = json.load(f)
    out.engines.append("E3 mir2smt (nightly MIR -> QF_BV; z3 5.1 API, /usr/bin/z3 4.8.12 and cvc5 1.0 must all answer unsat)")
    out.evaluations += r["stats"]["queries"]
    nuns = sum(1 for ob in r.get("obligations", []) if ob["verdict"] == "unsat")
    out.nontrivial += nuns
    out.queries += r["stats"]["queries"]
    out.solver_s += r["stats"]["solver_s"]
    out.functions.update("yash_arith::eval::" + f for f in r.get("functions_translated", []))
    ob = {"harness": "e3_binary_result_all_operators", "clause": "every operator returns the exact value or the documented error kind",
          "bound": "lhs, rhs: all i64; all 29 binary operators; loop-free MIR, %s paths" % r.get("paths"),
          "functions": ["yash_arith::eval::" + f for f in r.get("functions_translated", [])],
          "stubs": ["std functions modelled by contract: " + ", ".join(r.get("std_functions_modelled", []))],
          "verdict": "ok", "operators_unsat": nuns, "queries": r["stats"]["queries"], "solver_s": r["stats"]["solver_s"],
          "validation": r.get("validation"), "planted_mutant_sat": r.get("planted_mutant_sat")}
    known = core.load_known(PID)
    if r["violations"]:
        ob["verdict"] = "failed"
        rdir = os.path.join(core.VERIF, "replays", PID)
        os.makedirs(rdir, exist_ok=True)
        rp = os.path.join(rdir, "e3_binary_result.json")
        with open(rp, "w") as f:
            json.dump({"property": PID, "cases": r["violations"]}, f, indent=1)
        v = r["violations"][0]
        key = "e3:" + v["operator"]
        text = "%s(%s, %s): real code says %s, C semantics says %s" % (v["operator"], v["lhs"], v["rhs"], v["real"], v["spec"])
        if key in known:
            out.known_hits.append((key, known[key]))
        else:
            out.violations.append((key, rp, text))
    elif r["inconclusive"]:
        ob["verdict"] = "inconclusive"
        out.inconclusive.append("E3: " + "; ".join(r["inconclusive"][:3]))
    out.obligations.append(ob)


def run(tier, seed, only=None):
    out = core.Outcome(PID, tier, seed)
    out.engines = ["E1 kani 0.68 / CBMC 6.11 / CaDiCaL"]
    out.assumptions = [
        "Kani models the dev profile (overflow checks on)",
        "bounded: see per-obligation 'bound'; unwinding assertions enabled",
    ]

    def body():
        w = core.Workspace("c03")
        sess = setup(w, tier=tier)
        hs = [h for h in harnesses(tier) if not only or h.name in only]
        hs.sort(key=lambda h: -h.timeout)   # the long-running tokenizer obligations first
        res = sess.run_all(hs, jobs=int(os.environ.get("VERIF_JOBS", "16" if tier == "quick" else "8")))
        out.extra["kani_build_s"] = round(sess.build_s, 1)
        out.extra["repo_state"] = w.repo_state
        out.extra["injected"] = w.injected
        out.extra["transforms"] = w.transforms
        out.add_kani_results(res, sess, core.load_known(PID), PID)
        if not only or "e3" in only:
            run_e3(w, out)

    return core.guarded(out, body, trusted=["rustc MIR", "Kani 0.68 MIR->goto", "CBMC 6.11", "CaDiCaL"])


def replay(path):
    if path.endswith(".json"):
        import json
        import os
        import subprocess
        import sys
        sys.path.insert(0, os.path.join(core.VERIF, "e3"))
        w = core.Workspace("c03r")
        d = w.ext_crate("arith_driver")
        env2 = dict(core.ENV)
        env2["CARGO_TARGET_DIR"] = os.path.join(w.root, "target-arith-driver")
        core.run_cmd(["cargo", "build", "--offline", "--quiet"], d, 900, env=env2)
        exe = os.path.join(env2["CARGO_TARGET_DIR"], "debug", "arith_driver")
        with open(path) as f:
            cases = json.load(f)["cases"]
        bad = 0
        for c in cases:
            o = subprocess.run([exe], input="%s %s %s\n" % (c["operator"], c["lhs"], c["rhs"]), capture_output=True, text=True).stdout.strip()
            core.log("%s(%s, %s): real=%s spec=%s" % (c["operator"], c["lhs"], c["rhs"], o, c["spec"]))
            bad += o != c["spec"]
        if bad:
            core.log("VIOLATION property=%s replay=%s" % (PID, path))
            return 1
        return 0
    return core.generic_replay(PID, path, setup)
