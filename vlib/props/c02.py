"""C02 — control flow: loop levels of break/continue and command search order (kernels)."""
from vlib import core
from vlib.core import Harness

PID = "C02"


def setup(w):
    d = w.ext_crate("c02k")
    return core.KaniSession(w, d, tag="c02k", zflags=["stubbing"])


def harnesses(tier):
    fns = ["yash_env::stack::Stack::loop_count", "yash_builtin::break::semantics::run", "yash_builtin::continue::semantics::run"]
    b = "stack of %s frames (length arm-concrete, each frame kind of 7 symbolic); requested count: all usize"
    hs = [Harness("c02_loop_levels_%d" % n, b % str(n), fns,
                  "break/continue level = enclosing loops in the current context, capped; error iff none",
                  timeout=1200, cover_group="c02_loops", recursion_bounds=core.LOCATION_RECURSION)
          for n in range(0, 6 if tier == "thorough" else 5)]
    for nm in ("with_function", "without_function"):
        hs.append(Harness("c02_search_order_" + nm,
                          "names 'x' and 'a/x'; environment answers symbolic: built-in present or not, its type (5 kinds) and availability; "
                          "function %s" % ("present" if nm == "with_function" else "absent"),
                          ["yash_env::semantics::command::search::classify"],
                          "command search order: slash => external without lookup; special built-in > function > other built-in > PATH",
                          timeout=1200, cover_group="c02_search", recursion_bounds=core.LOCATION_RECURSION))
    return hs


def run(tier, seed, only=None):
    out = core.Outcome(PID, tier, seed)
    out.engines = ["E1 kani 0.68 / CBMC 6.11 / CaDiCaL"]
    out.assumptions = [
        "command search: classify() only (which kind of command a name denotes); the PATH walk of search() and the "
        "substitutive-built-in / not-portable statuses are string and path processing on heap data - not decided",
        "only kernels are decided: which commands run, their order and $? are decided inside Command::execute implementations "
        "that spawn subshells with async closures (Kani 0.68 ICE) - outside the claim",
    ]

    def body():
        w = core.Workspace("c02")
        sess = setup(w)
        hs = [h for h in harnesses(tier) if not only or h.name in only]
        res = sess.run_all(hs, jobs=4)
        out.extra.update({"kani_build_s": round(sess.build_s, 1), "repo_state": w.repo_state,
                          "injected": w.injected, "transforms": w.transforms})
        out.add_kani_results(res, sess, core.load_known(PID), PID)

    return core.guarded(out, body, trusted=["rustc MIR", "Kani 0.68", "CBMC 6.11", "CaDiCaL"])


def replay(path):
    return core.generic_replay(PID, path, setup)
