"""C04 — pattern matching accepts exactly the POSIX language. See DESIGN.md §6 C04.

E2: the real translator (Ast::new + Ast::to_regex, run natively against the snapshot)
emits a regex for every pattern of a bounded-exhaustive family; z3 decides equality of
its language with the POSIX reading for strings of every length.
E1: attr_fnmatch::apply_escapes / to_pattern_chars on symbolic AttrChar sequences.
"""
import json
import os

from vlib import core
from vlib.core import Harness

PID = "C04"


def build_driver(w):
    d = w.ext_crate("fnm_driver")
    env = dict(core.ENV)
    env["CARGO_TARGET_DIR"] = os.path.join(w.root, "target-fnm")
    rc, out, dt = core.run_cmd(["cargo", "build", "--offline", "--quiet"], d, 900, env=env)
    exe = os.path.join(env["CARGO_TARGET_DIR"], "debug", "fnm_driver")
    if rc != 0 or not os.path.exists(exe):
        raise core.Inconclusive("native E2 driver does not build against the current tree: " + out[-500:])
    return exe, dt


def build_trim_driver(w):
    d = w.ext_crate("trim_driver")
    env = dict(core.ENV)
    env["CARGO_TARGET_DIR"] = os.path.join(w.root, "target-trim")
    rc, out, dt = core.run_cmd(["cargo", "build", "--offline", "--quiet"], d, 1500, env=env)
    exe = os.path.join(env["CARGO_TARGET_DIR"], "debug", "trim_driver")
    if rc != 0 or not os.path.exists(exe):
        raise core.Inconclusive("native trim driver does not build against the current tree: " + out[-500:])
    return exe, dt


def run_trim(w, out, tier, known):
    """Prefix / suffix removal: conformance validation of the real `${x#pat}` ... expansion at solver-chosen
    witness strings (e2/run_trim.py). Not a solver decision over all strings - see DESIGN.md C04."""
    exe, bdt = build_trim_driver(w)
    res_path = os.path.join(w.root, "trim.json")
    rc, o, dt = core.run_cmd(["python3-vt", os.path.join(core.VERIF, "e2", "run_trim.py"), "--driver", exe, "--tier", tier,
                              "--out", res_path, "--jobs", "8"], core.VERIF, 1500 if tier == "quick" else 6000)
    core.log(o.strip()[-300:])
    if rc != 0 or not os.path.exists(res_path):
        out.inconclusive.append("trim validation failed to run: " + o[-300:])
        return
    with open(res_path) as f:
        r = json.load(f)
    ob = {"harness": "e2_trim_witness_validation",
          "clause": "prefix / suffix removal deletes exactly the shortest / longest matching prefix / suffix (validated natively at "
                    "solver-chosen witnesses: NOT a decision over all strings)",
          "bound": "%d patterns (quick: all sequences of <= 2 items over {a, b, ?, *, [ab], [!a], quoted *, e-acute} and of 3 items over "
                   "{a, ?, *, [ab]}; thorough: <= 3 items over those plus {[a-b], quoted ?, c, .} and 4 items over the core four) x 4 trim "
                   "forms x z3-chosen strings over {a, b, c, e-acute, .} of length <= 6 (with >= 2 matching cuts, with the pattern matching "
                   "twice in a row at the trimmed end, with a leading period, with a multi-byte character at the cut, with a match, without)"
                   % r["patterns"],
          "functions": ["yash_semantics::expansion::initial::param::trim::apply", "yash_fnmatch::Pattern::find",
                        "yash_fnmatch::Pattern::rfind", "yash_syntax::parser (word ${x#pat})"],
          "verdict": "ok", "cases": r["cases"], "cases_with_two_or_more_cuts": r["cases_with_two_or_more_cuts"],
          "queries": r["queries"], "solver_s": r["solver_s"], "driver_build_s": round(bdt, 1),
          "planted_mutant_detected": r["planted_mutant_detected"]}
    out.evaluations += r["queries"]
    out.queries += r["queries"]
    out.solver_s += r["solver_s"]
    out.extra["trim_cases_validated_natively"] = r["cases"]
    out.functions.update(ob["functions"])
    if not r["planted_mutant_detected"]:
        ob["verdict"] = "inconclusive"
        out.inconclusive.append("trim validation: planted mutant (shortest/longest swapped) was not detected")
    if r["n_disagreements"]:
        # re-check the first cases natively before reporting (fresh driver process)
        import subprocess
        confirmed = []
        for c in r["disagreements"][:10]:
            line = "%s %s | %s" % (c["form"], c["tokens"], " ".join("%x" % ord(ch) for ch in c["string"]))
            rr = subprocess.run([exe], input=line + "\n", capture_output=True, text=True).stdout.strip()
            try:
                j = json.loads(rr)
                real = "".join(chr(x) for x in j["value"]) if j.get("ok") else None
            except Exception:
                real = None
            if real != c["expected"]:
                confirmed.append(dict(c, real=real))
        if confirmed:
            ob["verdict"] = "failed"
            rdir = os.path.join(core.VERIF, "replays", PID)
            os.makedirs(rdir, exist_ok=True)
            rp = os.path.join(rdir, "trim_disagreements.json")
            with open(rp, "w") as f:
                json.dump({"property": PID, "class": "trim", "count": r["n_disagreements"], "cases": confirmed}, f, indent=1)
            key = "trim:" + confirmed[0]["form"]
            text = "%d cases, e.g. %s" % (r["n_disagreements"], confirmed[0].get("note") or confirmed[0])
            if key in known:
                out.known_hits.append((key, known[key]))
            else:
                out.violations.append((key, rp, text))
        else:
            ob["verdict"] = "inconclusive"
            out.inconclusive.append("trim validation: disagreements did not reproduce in a fresh driver process")
    out.obligations.append(ob)


MATTR = "expansion::attr_fnmatch::verif_c04_attr"


def setup_attr(w, name=""):
    w.inject("yash-semantics/src/expansion/attr_fnmatch.rs", "c04_attr.rs")
    return core.KaniSession(w, w.ws, pkg="yash-semantics", tag="sem")


def attr_harnesses(tier):
    fns = ["yash_semantics::expansion::attr_fnmatch::apply_escapes", "yash_semantics::expansion::attr_fnmatch::to_pattern_chars"]
    return [Harness("c04_escapes_%d" % n, "%d expanded characters; value over all of Unicode, origin/quoted/quoting symbolic" % n, fns,
                    "quoted and backslash-escaped characters reach the matcher as literal pattern characters; quoting characters "
                    "and escaping backslashes are dropped", timeout=900, mod=MATTR, cover_group="c04_escapes")
            for n in ((0, 1, 2, 3, 4) + ((5,) if tier == "thorough" else ()))]


def run(tier, seed, only=None):
    out = core.Outcome(PID, tier, seed)
    out.engines = ["E2 z3-relang (z3 5.1 sequence/regex theory, python3-vt)", "regex-syntax 0.8 (HIR of the emitted regex)"]
    out.assumptions = [
        "the regex crate matches according to the HIR that regex-syntax produces for the emitted text (same builder flags)",
        "lib.rs::Pattern::is_match glue (Literal arms, is_match_at) is hand-modelled; it is validated on every run by running "
        "solver-produced members/non-members of the spec language through the real is_match",
        "POSIX locale: ranges by code point, [:class:] = ASCII class, [=c=] and [.c.] = c, multi-character [.xy.] = the string xy",
        "patterns whose meaning POSIX leaves unspecified are skipped (counted): start>end ranges, [a-b-c], class/equivalence "
        "class as range endpoint, undefined class names, unterminated [. [= [: inside brackets, empty [..]; a leading ^ is "
        "accepted both as complement and as literal",
        "characters above U+2FFFF and case-insensitive matching are outside the claim",
        "prefix / suffix removal (# ## % %%) is NOT decided for all strings (regex search order has no counterpart in z3's "
        "regular-language theory): the real ${x#pat} expansion is validated natively at solver-chosen witness strings per pattern",
    ]
    known = core.load_known(PID)

    def body():
        w = core.Workspace("c04")
        out.extra["repo_state"] = w.repo_state
        if only == ["trim"]:
            # debugging / seed runs: the trim validation alone
            run_trim(w, out, tier, known)
            return
        exe, bdt = build_driver(w)
        res_path = os.path.join(w.root, "e2.json")
        cmd = ["python3-vt", os.path.join(core.VERIF, "e2", "run_e2.py"), "--driver", exe, "--tier", tier, "--out", res_path]
        env = dict(core.ENV)
        env["E2_GLUE_EVERY"] = "7" if tier == "quick" else "41"
        rc, o, dt = core.run_cmd(cmd, core.VERIF, 3000 if tier == "quick" else 10000, env=env)
        core.log(o.strip()[-600:])
        if rc != 0 or not os.path.exists(res_path):
            raise core.Inconclusive("E2 runner failed: " + o[-400:])
        with open(res_path) as f:
            r = json.load(f)
        if not r["selftest_ok"]:
            raise core.Inconclusive("E2 planted-mutant self-test did not come back sat")
        out.evaluations += r["queries"]
        out.nontrivial += r["equal"]
        out.queries += r["queries"]
        out.solver_s += r["solver_s"]
        out.functions.update(["yash_fnmatch::ast::Ast::new", "yash_fnmatch::ast::Ast::to_regex",
                              "yash_fnmatch::ast::Ast::to_literal", "yash_fnmatch::Pattern::parse_with_config",
                              "yash_fnmatch::Pattern::is_match (glue validation and replay)"])
        out.samples = r["samples"][:12]
        out.extra.update({
            "programs": r["patterns"], "pattern_config_pairs": r["pairs"], "families": r["families"],
            "languages_proved_equal": r["equal"], "skipped_unspecified_by_posix": r["skipped_unspecified"],
            "solver_unknown": r["unknown"], "disagreements_checked": len(r["confirmed"]) + len(r["unconfirmed"]),
            "glue_witnesses_validated_natively": r["glue_checked"], "driver_build_s": round(bdt, 1),
            "bound": "pattern family: F1 all token sequences <= %d over 13 unquoted + 9 quoted tokens; F2 one bracket "
                     "expression with <= %d members, one probe member over every ASCII punctuation character, a, B, "
                     "newline, e-acute; F3 brackets in context, every class name, outside probes; 4 anchoring configs "
                     "(+ literal_period); strings: every length (closed by z3)" % ((4, 3) if tier == "thorough" else (3, 2)),
        })
        ob = {"harness": "e2_language_equivalence", "clause": "matcher accepts exactly the POSIX language",
              "bound": out.extra["bound"], "verdict": "ok", "queries": r["queries"], "solver_s": r["solver_s"]}
        # violations grouped by witness class
        rdir = os.path.join(core.VERIF, "replays", PID)
        os.makedirs(rdir, exist_ok=True)
        byclass = {}
        for c in r["confirmed"]:
            byclass.setdefault(c["class"], []).append(c)
        for g in r["glue_bad"]:
            byclass.setdefault("is_match-glue", []).append(dict(g, kind="glue", witness=g["s"],
                                                               note="real is_match=%s but the POSIX reading says %s on %r"
                                                               % (g["real"], g["expect"], g["s"])))
        for cls, lst in sorted(byclass.items()):
            ob["verdict"] = "failed"
            rp = os.path.join(rdir, "e2_" + cls.replace("+", "_") + ".json")
            with open(rp, "w") as f:
                json.dump({"property": PID, "class": cls, "count": len(lst), "cases": lst[:25]}, f, indent=1)
            text = "%d pattern/config pairs, e.g. pattern %r cfg=%s: %s" % (
                len(lst), lst[0]["pattern"], lst[0]["cfg"], lst[0].get("note", ""))
            if cls in known:
                out.known_hits.append((cls, known[cls]))
            else:
                out.violations.append((cls, rp, text))
        if r["unconfirmed"] and not byclass:
            ob["verdict"] = "inconclusive"
            out.inconclusive.append("%d candidate disagreements did not reproduce natively or could not be encoded, e.g. %r"
                                    % (len(r["unconfirmed"]), r["unconfirmed"][0].get("pattern")))
        if r["unknown"]:
            ob["verdict"] = "inconclusive"
            out.inconclusive.append("%d z3 queries returned unknown" % r["unknown"])
        out.obligations.append(ob)
        out.extra["violation_classes"] = {k: len(v) for k, v in byclass.items()}
        if not only or "trim" in only:
            run_trim(w, out, tier, known)
        # E1 part: which expanded characters are literal for the matcher
        sess = setup_attr(w)
        res = sess.run_all([h for h in attr_harnesses(tier) if not only or h.name in only], jobs=6)
        out.engines.append("E1 kani 0.68 / CBMC 6.11 (attr_fnmatch)")
        out.extra["kani_build_s"] = round(sess.build_s, 1)
        out.extra["injected"] = w.injected
        out.add_kani_results(res, sess, known, PID)

    return core.guarded(out, body, level="translation_validation",
                        trusted=["regex-syntax 0.8 parser/HIR", "z3 5.1 sequence theory", "reference POSIX reading in e2/relang.py"],
                        rule="evaluations = z3 queries discharged (one regular-language equivalence query per "
                             "(pattern, config) pair plus member/non-member queries for glue validation); "
                             "distinct_nontrivial = distinct (pattern, config) pairs whose emitted regex was proved "
                             "language-equal to the POSIX reading (unsat)")


def replay(path):
    """Re-run the stored cases natively against the current tree."""
    if path.endswith(".rs"):
        return core.generic_replay(PID, path, setup_attr)
    import sys
    sys.path.insert(0, os.path.join(core.VERIF, "e2"))
    import relang
    with open(path) as f:
        d = json.load(f)
    if d.get("class") == "trim":
        import subprocess
        w = core.Workspace("c04r")
        exe, _ = build_trim_driver(w)
        bad = 0
        for c in d["cases"]:
            line = "%s %s | %s" % (c["form"], c["tokens"], " ".join("%x" % ord(ch) for ch in c["string"]))
            j = json.loads(subprocess.run([exe], input=line + "\n", capture_output=True, text=True).stdout)
            real = "".join(chr(x) for x in j["value"]) if j.get("ok") else None
            core.log("${x%s%s} x=%r: real=%r POSIX=%r" % (c["form"], c["pattern"], c["string"], real, c["expected"]))
            bad += real != c["expected"]
        if bad:
            core.log("VIOLATION property=%s replay=%s" % (PID, path))
            return 1
        return 0
    w = core.Workspace("c04r")
    exe, _ = build_driver(w)
    import subprocess
    bad = 0
    for c in d["cases"]:
        t = [(tok[0] == "L", chr(int(tok[1:], 16))) for tok in c["tokens"].split()]
        cfg = c["cfg"]
        cf = "".join("1" if b else "0" for b in cfg)
        if c.get("witness") is None:
            line = "T %s %s" % (cf, c["tokens"])
            r = json.loads(subprocess.run([exe], input=line + "\n", capture_output=True, text=True).stdout)
            if r.get("parse") != "ok":
                core.log("pattern %r still rejected: %s" % (c["pattern"], r.get("parse")))
                bad += 1
            continue
        line = "M %s %s | %s" % (cf, c["tokens"], " ".join("%x" % ord(ch) for ch in c["witness"]))
        r = json.loads(subprocess.run([exe], input=line + "\n", capture_output=True, text=True).stdout)
        refs = set()
        for cl in ((False, True) if relang.has_caret_bracket(t) else (False,)):
            refs.add(relang.ref_is_match(relang.parse_spec(t, cl), c["witness"], *cfg))
        if r["match"] not in refs:
            core.log("pattern %r cfg=%s string %r: real=%s reference=%s" % (c["pattern"], cfg, c["witness"], r["match"], sorted(refs)))
            bad += 1
    if bad:
        core.log("VIOLATION property=%s replay=%s" % (PID, path))
        return 1
    core.log("replay: all %d stored cases agree with the POSIX reading on the current tree" % len(d["cases"]))
    return 0
