"""C01 — word expansion yields the POSIX fields (kernels: IFS classification, the field
splitting state machine, quote removal, phrase algebra, switch table). DESIGN.md §6 C01."""
from vlib import core
from vlib.core import Harness

PID = "C01"
SPLIT = "yash_env::semantics::expansion::split::"


MSEM = "expansion::initial::param::switch::verif_c01_sem"


def setup_ext(w):
    d = w.ext_crate("c01k")
    return core.KaniSession(w, d, tag="c01k", zflags=["stubbing"])


def setup_sem(w):
    w.inject("yash-semantics/src/expansion/initial/param/switch.rs", "c01_sem.rs")
    return core.KaniSession(w, w.ws, pkg="yash-semantics", tag="sem")


def setup(w, name=""):
    return setup_sem(w) if name.startswith("c01_switch") or name.startswith("c01_phrase") else setup_ext(w)


def harnesses(tier):
    hs = []
    for name, ifs in [("default", "unset/default ' \\t\\n'"), ("empty", "''"), ("space", "' '"), ("dash", "'-'"),
                      ("space_dash", "' -'"), ("dash_colon", "'-:'"), ("mixed", "' \\t-:'"), ("letter", "'a'"),
                      ("colon_nl", "':\\n'")]:
        hs.append(Harness("c01_classify_" + name,
                          "IFS=%s (concrete); ONE character out of 16 candidates (all IFS members used, CR, NUL, DEL, $, \\, U+00A0, U+3000, e-acute, letters; arm-concrete) x origin, is_quoted, is_quoting symbolic" % ifs,
                          [SPLIT + "Ifs::new", SPLIT + "Ifs::classify_attr", SPLIT + "Ifs::classify"],
                          "only unquoted soft-expansion characters that occur in IFS separate; white space iff space/tab/newline",
                          timeout=900, cover_group="c01_classify"))
    stub = ["Ifs::classify_attr -> its specification for IFS=' -' (discharged by c01_classify_space_dash)"]
    for n in range(0, 8 if tier == "thorough" else 7):
        hs.append(Harness("c01_ranges_%d" % n,
                          "every sequence of %d characters over {a, space, -} x every origin/quoted/quoting attribute; IFS=' -'" % n,
                          [SPLIT + "Ranges::next", SPLIT + "Ifs::ranges"],
                          "field ranges = XCU 2.6.5 reference splitter (leading/trailing IFS white space ignored, white space runs "
                          "merge around at most one other separator, every further non-white-space separator delimits an empty field)",
                          timeout=2400, stubs=stub, cover_group="c01_ranges"))
    # split_into (which materialises the fields as AttrFields with a Location each) is outside: with ONE
    # character the harness ran CBMC out of memory (16 GB) - heap-allocated Vec<AttrField> is encoded bytewise.
    for nm, txt in (("ifs_empty", "''"), ("ifs_space_dash", "' -'")):
        hs.append(Harness("c01_split_into_empty_field_" + nm, "the empty field, IFS=%s" % txt, [SPLIT + "split_into"],
                          "an empty unquoted expansion result yields no field, whatever IFS is", timeout=900,
                          recursion_bounds=core.LOCATION_RECURSION))
    hs.append(Harness("c01_switch_table", "8 value shapes (unset, '', 'a', (), (''), ('a'), ('' ''), ('' 'a')) x colon/no colon",
                      ["yash_semantics::expansion::initial::param::switch::ValueCondition::with",
                       "yash_semantics::expansion::initial::param::switch::Vacancy::of"],
                      "which values count as vacant for - = ? + with and without colon (XCU 2.6.2)", timeout=900, mod=MSEM))
    for nm, txt in [("char", "Char(c)"), ("field0", "Field[]"), ("field1", "Field[c]"), ("field2", "Field[c c]"),
                    ("full0", "Full[] (zero fields)"), ("full_empty", "Full[[]]"), ("full1", "Full[[c]]"),
                    ("full_1_0", "Full[[c][]]"), ("full_1_1", "Full[[c][c]]")]:
        hs.append(Harness("c01_phrase_" + nm,
                          "left operand %s x every right operand of the 9 shapes; all characters and attributes symbolic" % txt,
                          ["yash_semantics::expansion::phrase::Phrase::append", "yash_semantics::expansion::phrase::Phrase::field_count",
                           "yash_semantics::expansion::phrase::Phrase::is_zero_fields",
                           "<yash_semantics::expansion::phrase::Phrase as IntoIterator>::into_iter"],
                          "phrase concatenation glues last/first field, zero fields is the identity ($@ / $* field algebra)",
                          timeout=1800, mod=MSEM, cover_group="c01_phrase"))
    for n in range(0, 6 if tier == "thorough" else 5):
        hs.append(Harness("c01_strip_%d" % n, "%d characters, value over all of Unicode, all attributes symbolic" % n,
                          ["yash_env::semantics::expansion::quote_removal::skip_quotes",
                           "yash_env::semantics::expansion::attr_strip::Strip::strip"],
                          "quote removal drops exactly the quoting characters, keeps order and values", timeout=900,
                          cover_group="c01_strip"))
    return hs


def run(tier, seed, only=None):
    out = core.Outcome(PID, tier, seed)
    out.engines = ["E1 kani 0.68 / CBMC 6.11 / CaDiCaL"]
    out.assumptions = [
        "compositional: the splitting state machine is verified against the specification of classify_attr (kani::stub), "
        "which is itself verified per IFS value on one symbolic character",
        "IFS values are 9 concrete strings (a symbolically chosen IFS makes std's substring search run on symbolic data: >18 min)",
        "outside: the initial expansion itself (parameter forms, $@/$*, nounset) - every path into it reaches command substitution, "
        "whose subshell is spawned with an async closure (Kani 0.68 ICE); trims (#, %) reach regex construction (second ICE)",
    ]

    def body():
        w = core.Workspace("c01")
        hs = [h for h in harnesses(tier) if not only or h.name in only]
        ext = [h for h in hs if not h.mod]
        sem = [h for h in hs if h.mod]
        known = core.load_known(PID)
        builds = {}
        s1 = setup_ext(w) if ext else None
        s2 = setup_sem(w) if sem else None
        res = core.run_sessions([(s1, ext), (s2, sem)], jobs=10)
        for sname, sess in (("c01k", s1), ("yash-semantics", s2)):
            if sess is not None:
                builds[sname] = round(sess.build_s, 1)
                out.add_kani_results(res.get(sess, []), sess, known, PID)
        out.extra.update({"kani_build_s": builds, "repo_state": w.repo_state,
                          "injected": w.injected, "transforms": w.transforms})

    return core.guarded(out, body, trusted=["rustc MIR", "Kani 0.68", "CBMC 6.11", "CaDiCaL"])


def replay(path):
    return core.generic_replay(PID, path, setup)
