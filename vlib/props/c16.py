"""C16 — variable scope, lifetime, attributes: simulation steps of VariableSet. DESIGN.md §6 C16."""
import importlib.util
import os

from vlib import core
from vlib.core import Harness

PID = "C16"
M = "variable::verif_c16_var"

_spec = importlib.util.spec_from_file_location("gen_c16_arms", os.path.join(core.VERIF, "tools", "gen_c16_arms.py"))
gen = importlib.util.module_from_spec(_spec)
_spec.loader.exec_module(gen)


def cfg_switch(w, label, rel, old, new_kani, count=1):
    w.transform(label, rel, old, "#[cfg(not(kani))]\n%s\n#[cfg(kani)]\n%s" % (old, new_kani), count=count)


def setup(w, name="", tier="thorough", selected=None):
    if name and selected is None:
        selected = [name]
    with open(os.path.join(w.hdir, "incrate", "c16_var.rs"), "a") as f:
        f.write(gen.arm_text(selected))
    w.drop_downstream_dev_deps("yash-env")
    w.disable_unit_tests_under_kani("yash-env")
    w.inject("yash-env/src/lib.rs", "shim_inline.rs", modname="verif_inl")
    w.inject("yash-env/src/lib.rs", "shim_btreemap.rs", modname="verif_bt")
    T1c = "T1c HashMap / per-name Vec->inline slot map / fixed-capacity inline vector (same contract, heap-free)"
    T7v = "T7v Location in variable records->unit stand-in"
    v = "yash-env/src/variable.rs"
    IV = "crate::verif_inl::InlineVec<VariableInContext>"
    cfg_switch(w, T1c, v, "use std::collections::HashMap;", "use crate::verif_inl::SlotMap as HashMap;")
    cfg_switch(w, T1c, v, "use std::collections::hash_map::Entry::{Occupied, Vacant};",
               "use crate::verif_inl::Entry::{Occupied, Vacant};")
    w.transform(T1c, v, "    all_variables: HashMap<String, Vec<VariableInContext>>,",
                "    #[cfg(not(kani))]\n    all_variables: HashMap<String, Vec<VariableInContext>>,\n"
                "    #[cfg(kani)]\n    all_variables: HashMap<String, %s>," % IV)
    w.transform(T1c, v, "inner: std::collections::hash_map::Iter<'a, String, Vec<VariableInContext>>,",
                "#[cfg(not(kani))]\n    inner: std::collections::hash_map::Iter<'a, String, Vec<VariableInContext>>,\n"
                "    #[cfg(kani)]\n    inner: crate::verif_inl::Iter<'a, String, %s>," % IV)
    w.transform(T1c, v, "Vacant(vacant) => vacant.insert(Vec::new()),", "Vacant(vacant) => vacant.insert(Default::default()),")
    cfg_switch(w, T7v, v, "use crate::source::Location;", "use crate::verif_bt::Location;")
    w.transform(T7v, v, "let last_modified_location = fields.next().map(|field| field.origin);",
                "#[cfg(not(kani))]\n        let last_modified_location = fields.next().map(|field| field.origin);\n"
                "        #[cfg(kani)]\n        let last_modified_location = fields.next().map(|_| Location::default());")
    w.transform("T9v array values are not formatted in env_c_strings (the ':'-joined formatting through core::fmt / itertools is cut; array values are outside the claim)",
                v, """Array(values) => write!(result, "{}", values.iter().format(":")).ok()?,""",
                """Array(values) => {
                        if cfg!(kani) {
                            return None;
                        }
                        write!(result, "{}", values.iter().format(":")).ok()?
                    }""")
    m = "yash-env/src/variable/main.rs"
    cfg_switch(w, T7v, m, "use crate::source::Location;", "use crate::verif_bt::Location;")
    # Variable::expand takes the location of the expansion (a real Location): keep that one real
    w.transform(T7v, m, "pub fn expand(&self, location: &Location) -> Expansion<'_> {",
                "pub fn expand(&self, location: &crate::source::Location) -> Expansion<'_> {")
    w.inject(v, "c16_var.rs")
    return core.KaniSession(w, w.ws, pkg="yash-env", tag="env", zflags=["stubbing"])


VS = "yash_env::variable::VariableSet::"
STEP_FNS = {
    "lookup": [VS + "get", VS + "get_scoped"],
    "assign": [VS + "get_or_new", "yash_env::variable::VariableRefMut::assign"],
    "unset": [VS + "unset"],
    "pop": [VS + "pop_context_impl"],
    "push": [VS + "push_context_impl"],
    "env": [VS + "env_c_strings"],
    "attrs": [VS + "get_or_new", "yash_env::variable::VariableRefMut::export", "yash_env::variable::VariableRefMut::make_read_only"],
}
STEP_CLAUSE = {
    "lookup": "lookup returns the entry of the innermost context within the scope",
    "assign": "get_or_new + assign: documented target context, lowering of temporary variables, cloning into a volatile context, read-only refusal without any change",
    "unset": "unset removes exactly the entries within the scope; a read-only entry blocks it and nothing changes",
    "pop": "leaving a context removes exactly the entries of that context (locals / temporary assignments vanish, outer variables persist)",
    "push": "entering a context changes no existing variable",
    "attrs": "export / read-only marks apply to the visible variable only",
    "env": "the environment for executed programs is exactly the visible exported variables with their current values",
}


# quick tier (the check run on every change): the arms that exercise each distinct branch of the scope logic - a new
# variable, an existing one in every position, temporary variables lowered or cloned, holes in the per-name stack, read-only
# entries inside and outside the scope; thorough: all 211 (step, shape, occupancy) arms
QUICK = set("""
assign_rr_m1 assign_rr_m2 assign_rr_m3 assign_rv_m1 assign_rv_m2 assign_rv_m3 assign_rrv_m3 assign_rrv_m5 assign_rrv_m7
assign_rvr_m2 assign_rvr_m7 assign_rvv_m6 assign_rvv_m7
unset_rr_m1 unset_rr_m2 unset_rv_m1 unset_rv_m3 unset_rrr_m1 unset_rrv_m5 unset_rvr_m5 unset_rvv_m6
pop_rr_m3 pop_rv_m2 pop_rv_m3 pop_rrv_m5 pop_rvr_m7
lookup_rr_m3 lookup_rv_m1 lookup_rvr_m5 attrs_rr_m3 attrs_rv_m1 push_r_m1
""".split())


def harnesses(tier):
    hs = []
    for name, st, kinds, m in gen.arms():
        shape = name.split("_")[2]
        if st.startswith("dbg"):
            if not os.environ.get("VERIF_DBG"):
                continue
        elif tier == "quick" and name[4:] not in QUICK:
            continue
        hs.append(Harness(name, "context stack %s (r = regular, v = volatile), variable x present in the contexts of mask %d; content of "
                          "every entry (value or none, exported, read-only) and the scope symbolic" % (shape, m),
                          STEP_FNS.get(st, []) + [VS + "get"], STEP_CLAUSE.get(st, "debug"),
                          # a new variable under every scope (mask 0) is the largest formula: 16 GB was not enough with a volatile top
                          timeout=1800 if (st == "assign" and m == 0) else 900, mem_gb=20 if (st == "assign" and m == 0) else 16,
                          mod=M, cover_group="c16_" + st))
    return hs


def run(tier, seed, only=None):
    out = core.Outcome(PID, tier, seed)
    out.engines = ["E1 kani 0.68 / CBMC 6.11 / CaDiCaL"]
    out.assumptions = [
        "T1c: std HashMap and the per-name Vec replaced by heap-free stand-ins with the same documented contract (slot map of 3 names, vector of capacity 4; out-of-range slicing / draining panics as in std)",
        "T7v: the Location stored in a Variable / PositionalParams is replaced by a unit stand-in (only stored and reported; no scope decision reads it)",
        "not covered (measured: 18 GB after 20 min): the assign step for a variable that exists in NO context when the topmost context is volatile (shapes rv, rrv, rvv with mask 0); the same step with a regular top and all other occupancies are covered",
        "simulation step: pre-state = any per-name stack over a context stack of <= 3 contexts (every shape, every occupancy), entry contents symbolic; "
        "values are scalar strings; array values, quirks and positional parameters are outside (T9v: the formatting of array values in env_c_strings is cut)",
        "which command kinds push / pop which contexts (perform_assignments, function calls, built-in types) is outside: command execution (async closures); "
        "the environment handed to executed programs (env_c_strings) is outside: the step was built and measured (no answer in 15 min per arm: "
        "substring searches and CString building on strings of symbolic length)",
    ]

    def body():
        w = core.Workspace("c16")
        hs = [h for h in harnesses(tier) if not only or h.name in only]
        sess = setup(w, tier=tier, selected=[h.name for h in hs])
        # the unset arms are the slowest (250-400 s): start them first
        hs.sort(key=lambda h: 0 if "_unset_" in h.name else (1 if "_assign_" in h.name else 2))
        res = sess.run_all(hs, jobs=14)
        out.extra.update({"kani_build_s": round(sess.build_s, 1), "repo_state": w.repo_state,
                          "injected": w.injected, "transforms": w.transforms})
        out.add_kani_results(res, sess, core.load_known(PID), PID)

    return core.guarded(out, body, trusted=["rustc MIR", "Kani 0.68", "CBMC 6.11", "CaDiCaL"])


def replay(path):
    return core.generic_replay(PID, path, setup)
