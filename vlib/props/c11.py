"""C11 — signal dispositions match the traps; pending flag exactly once. DESIGN.md §6 C11."""
from vlib import core
from vlib.core import Harness

PID = "C11"
MS = "trap::state::verif_c11_state"
MT = "trap::verif_c11_trapset"


def cfg_switch(w, label, rel, old, new_kani):
    w.transform(label, rel, old, "#[cfg(not(kani))]\n%s\n#[cfg(kani)]\n%s" % (old, new_kani))


def setup(w):
    w.drop_downstream_dev_deps("yash-env")
    w.disable_unit_tests_under_kani("yash-env")
    w.inject("yash-env/src/lib.rs", "shim_btreemap.rs", modname="verif_bt")
    st, tr = "yash-env/src/trap/state.rs", "yash-env/src/trap.rs"
    T1b = "T1b BTreeMap->sorted association list"
    T7 = "T7 Location in trap records->unit stand-in"
    cfg_switch(w, T1b, st, "use std::collections::btree_map::{Entry, VacantEntry};",
               "use crate::verif_bt::{Entry, VacantEntry};")
    cfg_switch(w, T7, st, "use crate::source::Location;", "use crate::verif_bt::Location;")
    cfg_switch(w, T1b, tr, "use std::collections::BTreeMap;", "use crate::verif_bt::BTreeMap;")
    cfg_switch(w, T1b, tr, "use std::collections::btree_map::Entry;", "use crate::verif_bt::Entry;")
    cfg_switch(w, T7, tr, "use crate::source::Location;", "use crate::verif_bt::Location;")
    w.transform(T1b, tr, "inner: std::collections::btree_map::Iter<'a, Condition, GrandState>,",
                "#[cfg(not(kani))]\n    inner: std::collections::btree_map::Iter<'a, Condition, GrandState>,\n"
                "    #[cfg(kani)]\n    inner: crate::verif_bt::Iter<'a, Condition, GrandState>,")
    T7b = "T7b command text of a trap action->unit stand-in"
    w.transform(T7b, st, "    Command(Rc<str>),", "    Command(CmdText),")
    w.transform(T7b, st, "#[derive(Clone, Debug, Default, Eq, Hash, PartialEq)]\npub enum Action {",
                "#[cfg(kani)]\ntype CmdText = crate::verif_bt::Cmd;\n#[cfg(not(kani))]\ntype CmdText = Rc<str>;\n\n"
                "#[derive(Clone, Debug, Default, Eq, Hash, PartialEq)]\npub enum Action {")
    w.inject(st, "c11_state.rs")
    w.inject(tr, "c11_trapset.rs")
    return core.KaniSession(w, w.ws, pkg="yash-env", tag="env")


GS = "yash_env::trap::state::GrandState::"
TS = "yash_env::trap::TrapSet::"


def harnesses(tier):
    b = ("one signal; pre-state = any record (action x origin arm-concrete, "
         "pending/parent/internal disposition symbolic) with the system satisfying J, or no record with any initial disposition; "
         "system call fails symbolically")
    hs = []
    acts = ["default", "ignore", "command"]
    orgs = ["inherited", "subshell", "user"]
    for a in acts:
        for o in orgs:
            st = "record with action=%s origin=%s; " % (a, o)
            hs.append(Harness("c11_set_action_occ_%s_%s" % (a, o), st + b + "; new action x override symbolic", [GS + "set_action"],
                              "disposition = max(internal, action); ignored-on-entry refused; one system call iff changed",
                              timeout=900, mod=MS, cover_group="c11_set_action_occ"))
            hs.append(Harness("c11_internal_occ_%s_%s" % (a, o), st + b + "; new internal disposition symbolic",
                              [GS + "set_internal_disposition"], "internal handler changes never drop a needed handler",
                              timeout=900, mod=MS, cover_group="c11_internal_occ"))
            hs.append(Harness("c11_enter_subshell_%s_%s" % (a, o), st + b + "; each EnterSubshellOption", [GS + "enter_subshell"],
                              "command traps reset to default, ignored stays ignored, internal per option", timeout=900, mod=MS,
                              cover_group="c11_enter_subshell"))
    hs += [
        Harness("c11_set_action_vacant", "no record; " + b, [GS + "set_action"], "first trap on a signal; InitiallyIgnored",
                timeout=900, mod=MS),
        Harness("c11_internal_vacant", "no record; " + b, [GS + "set_internal_disposition"],
                "internal handler on an untouched signal", timeout=900, mod=MS),
        Harness("c11_ignore_and_pending", b + "; 0-2 deliveries", [GS + "ignore", GS + "mark_as_caught", GS + "handle_if_caught"],
                "pending flag handed out exactly once", timeout=900, mod=MS),
    ]
    tb = "TrapSet with 0-1 existing records; system = one disposition cell per signal; "
    hs += [
        Harness("c11_kill_stop_untrappable", tb + "signal KILL/STOP, action and override symbolic", [TS + "set_action"],
                "KILL and STOP can never be trapped; refusal has no effect", timeout=900, mod=MT),
        Harness("c11_table_internal_sets", tb + "optional user trap on SIGTERM; each enable/disable family",
                [TS + "enable_internal_disposition_for_sigchld", TS + "enable_internal_dispositions_for_terminators",
                 TS + "enable_internal_dispositions_for_stoppers", TS + "disable_internal_dispositions_for_terminators",
                 TS + "disable_internal_dispositions"], "exactly the documented signals are touched; a user trap survives",
                timeout=1200, mod=MT),
        Harness("c11_table_pending", "two trapped signals + one untrapped, each delivered or not (symbolic)",
                [TS + "catch_signal", TS + "take_caught_signal", TS + "take_signal_if_caught"],
                "each caught signal handed out exactly once, untrapped ones never", timeout=900, mod=MT),
    ]
    for sg in ("usr1", "int", "chld", "tstp"):
        hs.append(Harness("c11_table_subshell_" + sg,
                          "one record for SIG%s (action kind arm-concrete; origin, internal disposition, pending symbolic) x "
                          "ignore_sigint_sigquit x keep_stoppers" % sg.upper(), [TS + "enter_subshell", GS + "enter_subshell", GS + "ignore"],
                          "subshell entry: command traps reset, ignored stays ignored (and untrappable), CHLD keeps its handler, "
                          "INT/QUIT ignored for async lists, stoppers per flag", timeout=1200, mod=MT, cover_group="c11_table_subshell"))
    return hs


def run(tier, seed, only=None):
    out = core.Outcome(PID, tier, seed)
    out.engines = ["E1 kani 0.68 / CBMC 6.11 / CaDiCaL"]
    out.assumptions = [
        "T1b: BTreeMap replaced by a sorted association list (same documented contract, key order kept)",
        "T7: the Location stored in a trap record is replaced by a unit stand-in (only stored and displayed)",
        "T7b: the command text (Rc<str>) of Action::Command is replaced by a unit stand-in (stored, displayed, executed later; never read by disposition logic)",
        "system stub: sigaction for a given signal either always fails (EINVAL) or never; a failing call changes nothing",
        "inductive step over one signal's record; the installed-disposition invariant J is assumed for the pre-state",
        "running the trap action at the next command boundary with $? preserved is outside (command execution)",
    ]

    def body():
        w = core.Workspace("c11")
        sess = setup(w)
        hs = [h for h in harnesses(tier) if not only or h.name in only]
        res = sess.run_all(hs, jobs=10)
        out.extra.update({"kani_build_s": round(sess.build_s, 1), "repo_state": w.repo_state,
                          "injected": w.injected, "transforms": w.transforms})
        out.add_kani_results(res, sess, core.load_known(PID), PID)

    return core.guarded(out, body, trusted=["rustc MIR", "Kani 0.68", "CBMC 6.11", "CaDiCaL"])


def replay(path):
    return core.generic_replay(PID, path, setup)
