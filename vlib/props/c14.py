"""C14 — data through pipes arrives complete and in order: the pipe buffer of the simulated system
(FileBody::Fifo poll_write / poll_read) as inductive steps. DESIGN.md §6 C14."""
import os

from vlib import core
from vlib.core import Harness

PID = "C14"
M = "system::r#virtual::file_body::verif_c14_fifo"
PIPE_BUF, PIPE_SIZE = 4, 8


def arms(tier):
    out = []
    lens = range(0, PIPE_SIZE + 1)
    if tier == "quick":
        wl, wn = (0, 3, 5, 7, 8), (0, 1, 3, 4, 5, 9)
        rl, rn = (0, 1, 5, 7, 8), (0, 1, 4, 9)
    else:
        wl, wn = lens, range(0, 12)
        rl, rn = lens, range(0, 11)
    for l in wl:
        for n in wn:
            out.append(("c14_write_l%d_n%d" % (l, n), "write", l, n))
    for l in rl:
        for n in rn:
            out.append(("c14_read_l%d_n%d" % (l, n), "read", l, n))
    # reads from a pipe whose content wraps around the end of the ring buffer (head advanced by 5)
    for l in ((5, 8) if tier == "quick" else range(4, PIPE_SIZE + 1)):
        for n in ((2, 4, 9) if tier == "quick" else range(1, 11)):
            out.append(("c14_readw_l%d_n%d" % (l, n), "readw", l, n))
    # the write(2) loop above the buffer (OpenFileDescription::poll_write_full): fill level x request size
    for l in ((0, 5, 8) if tier == "quick" else lens):
        for n in ((3, 9) if tier == "quick" else (0, 1, 3, 4, 5, 9, 11)):
            out.append(("c14_wfull_l%d_n%d" % (l, n), "wfull", l, n))
    return out


def cfg_switch(w, label, rel, old, new_kani):
    w.transform(label, rel, old, "#[cfg(not(kani))]\n%s\n#[cfg(kani)]\n%s" % (old, new_kani))


def setup(w, name="", tier="thorough", selected=None):
    if name and selected is None:
        selected = [name]
    w.drop_downstream_dev_deps("yash-env")
    w.disable_unit_tests_under_kani("yash-env")
    fb = "yash-env/src/system/virtual/file_body.rs"
    w.inject("yash-env/src/lib.rs", "shim_wakerset.rs", modname="verif_ws")
    # the virtual system imports the type once (virtual.rs) and file_body.rs takes it from there
    cfg_switch(w, "T10 WakerSet in the virtual FIFO->counting stand-in", "yash-env/src/system/virtual.rs",
               "use crate::waker::WakerSet;", "use crate::verif_ws::WakerSet;")
    w.transform("T6 PIPE_BUF 512->4 (PIPE_SIZE = 2 * PIPE_BUF = 8)", fb, "pub const PIPE_BUF: usize = 512;",
                "#[cfg(not(kani))]\npub const PIPE_BUF: usize = 512;\n#[cfg(kani)]\npub const PIPE_BUF: usize = 4;")
    with open(os.path.join(w.hdir, "incrate", "c14_fifo.rs"), "a") as f, \
            open(os.path.join(w.hdir, "incrate", "c14_io.rs"), "a") as g:
        for nm, step, l, n in arms("thorough"):
            if selected is None or nm in selected:
                if step == "wfull":
                    g.write("arm!(%s, %d, %d);\n" % (nm, l, n))
                else:
                    f.write("arm!(%s, step_%s, %d, %d);\n" % (nm, step, l, n))
    w.inject(fb, "c14_fifo.rs")
    w.inject("yash-env/src/system/virtual/io.rs", "c14_io.rs")
    return core.KaniSession(w, w.ws, pkg="yash-env", tag="env", zflags=["stubbing"])


def native_cases(step):
    """Inputs for the native enumeration replay, in the order of the kani::any() calls of the step: the old pipe content
    (8 x u8), for a write the request data (12 x u8), then the reader and writer counts (usize each) - all nine count
    combinations over fixed, pairwise different byte values."""
    cases = []
    for readers in (0, 1, 2):
        for writers in (0, 1, 2):
            c = [(0x41 + i, 1) for i in range(8)]
            if step == "write":
                c += [(0x61 + i, 1) for i in range(12)]
            c += [(readers, 8), (writers, 8)]
            cases.append(c)
    return cases


def harnesses(tier):
    hs = []
    for nm, step, l, n in arms(tier):
        if step == "wfull":
            hs.append(Harness(nm, "pipe holding %d of %d bytes, write(2) request of %d bytes of which a symbolic number was already "
                              "transferred; blocking / non-blocking descriptor, reader count, byte values symbolic" % (l, PIPE_SIZE, n),
                              ["yash_env::system::r#virtual::OpenFileDescription::poll_write_full",
                               "yash_env::system::r#virtual::OpenFileDescription::poll_write",
                               "yash_env::system::r#virtual::FileBody::poll_write"],
                              "one poll of the write loop: the running total grows by exactly what the pipe accepted, completes only when "
                              "everything is transferred, blocks without splitting an atomic rest, reports EPIPE / EAGAIN / the partial count",
                              timeout=900, mem_gb=12, mod="system::r#virtual::io::verif_c14_io", cover_group="c14_wfull",
                              # the write loop makes at most 3 rounds (write, write / block, done); unwound 14 times with the byte
                              # loops of VecDeque::extend inside, symbolic execution alone took > 15 min
                              cbmc_unwind=13, loop_bounds=[(r"function system::r#virtual::io::OpenFileDescription::poll_write_full", 4)],
                              # replay inputs in kani::any() order: data (12 x u8), readers (usize), nonblocking (bool), w0 (usize), content (l x u8)
                              native_cases=[[(0x61 + i, 1) for i in range(12)] + [(rd, 8), (nb, 1), (w0, 8)] + [(0x41 + i, 1) for i in range(l)]
                                            for rd in (0, 1) for nb in (0, 1) for w0 in range(0, n + 1)]))
            continue
        fn = "yash_env::system::r#virtual::FileBody::poll_" + step.rstrip("w")
        hs.append(Harness(nm, "pipe holding %d of %d bytes, %s request of %d bytes (PIPE_BUF scaled to %d); byte values, reader and "
                          "writer counts symbolic" % (l, PIPE_SIZE, step, n, PIPE_BUF), [fn],
                          "POSIX pipe rules for one %s: completeness, order, atomicity up to PIPE_BUF, capacity, blocking, wake-ups" % step,
                          timeout=900, mem_gb=12, mod=M, cover_group="c14_" + step.rstrip("w"),
                          native_cases=native_cases(step.rstrip("w"))))
    return hs


def run(tier, seed, only=None):
    out = core.Outcome(PID, tier, seed)
    out.engines = ["E1 kani 0.68 / CBMC 6.11 / CaDiCaL"]
    out.assumptions = [
        "T6: PIPE_BUF scaled from 512 to 4 in the snapshot (PIPE_SIZE = 2 * PIPE_BUF follows); the pipe algorithm is parametric in the constant",
        "T10: the WakerSet fields of the FIFO are replaced by a counting stand-in (the data path never reads them)",
        "the ring buffer is pre-allocated at PIPE_SIZE in the pre-state (std's reallocation is not part of the claim); the stored ORDER of "
        "accepted bytes after a write (VecDeque::extend) is not decided - every variant that read them back exceeded 10-12 GB",
        "inductive step over ONE pipe: any fill level, any request size up to beyond the capacity, any byte values; the transfer loops "
        "on top (Concurrent::write_all / read_all), pipeline wiring, command substitution's newline trimming and here-documents are outside "
        "(async closures / concurrency)",
    ]

    def body():
        w = core.Workspace("c14")
        hs = [h for h in harnesses(tier) if not only or h.name in only]
        sess = setup(w, tier=tier, selected=[h.name for h in hs])
        res = sess.run_all(hs, jobs=14)
        out.extra.update({"kani_build_s": round(sess.build_s, 1), "repo_state": w.repo_state,
                          "injected": w.injected, "transforms": w.transforms})
        out.add_kani_results(res, sess, core.load_known(PID), PID)

    return core.guarded(out, body, trusted=["rustc MIR", "Kani 0.68", "CBMC 6.11", "CaDiCaL", "std VecDeque as compiled by Kani"])


def replay(path):
    return core.generic_replay(PID, path, setup)
