"""C12 — job table consistency: inductive steps on JobList. See DESIGN.md §6 C12."""
from vlib import core
from vlib.core import Harness

PID = "C12"
M = "job::verif_c12_job"


def t1_hashmap(w, rel):
    """T1: HashMap -> association list (verif_shim) in one source file, cfg(kani) only."""
    w.transform("T1 HashMap->association list", rel,
                "use std::collections::HashMap;",
                "#[cfg(not(kani))]\nuse std::collections::HashMap;\n#[cfg(kani)]\nuse crate::verif_shim::HashMap;")


N4_MASKS = (7, 11, 13, 14, 15)          # 4-slot tables with three or four jobs
N4_OPS = ("update_status", "remove", "insert", "set_current")


def make_n4_variant(w):
    """Thorough tier: the same step harnesses over 4-slot tables (generated from c12_job.rs:
    N = 4, arms for the occupancy masks with >= 3 jobs, harness names c12n4_*)."""
    import os
    src = os.path.join(w.hdir, "incrate", "c12_job.rs")
    with open(src) as f:
        t = f.read()
    t = t.replace("const N: usize = 3; // slots in the table (bound)", "const N: usize = 4; // slots in the table (bound)")
    a = t.index("// One harness per (operation, occupancy mask).")
    b = t.index("/// Base case: the empty table satisfies I.")
    arms = "// 4-slot variant: occupancy masks with three or four jobs\n"
    for op in N4_OPS:
        for m in N4_MASKS:
            arms += "arm!(c12n4_%s_m%d, step_%s, %d, false);\n" % (op, m, op, m)
    t = t[:a] + arms + "\n" + t[b:]
    t = t.replace("fn c12_base()", "fn c12n4_base()")
    with open(os.path.join(w.hdir, "incrate", "c12_job4.rs"), "w") as f:
        f.write(t)


def setup(w, name="", tier="thorough"):
    if tier == "quick" and not name.startswith("c12n4_"):
        w.strip_thorough("c12_job.rs")
    else:
        make_n4_variant(w)
    w.drop_downstream_dev_deps("yash-env")
    w.disable_unit_tests_under_kani("yash-env")
    w.inject("yash-env/src/lib.rs", "shim_hashmap.rs", modname="verif_shim")
    t1_hashmap(w, "yash-env/src/job.rs")
    w.transform("T1 HashMap->association list", "yash-env/src/job.rs",
                "use std::collections::hash_map::Entry::*;",
                "#[cfg(not(kani))]\n        use std::collections::hash_map::Entry::*;\n        #[cfg(kani)]\n        use crate::verif_shim::Entry::*;")
    w.inject("yash-env/src/job.rs", "c12_job.rs")
    import os
    if os.path.exists(os.path.join(w.hdir, "incrate", "c12_job4.rs")):
        w.inject("yash-env/src/job.rs", "c12_job4.rs")
    return core.KaniSession(w, w.ws, pkg="yash-env", tag="env", zflags=["stubbing"])


OPS = [
    ("update_status", ["yash_env::job::JobList::update_status"], "state update + documented reselection"),
    ("remove", ["yash_env::job::JobList::remove"], "removal keeps indices, reselects current/previous"),
    ("insert", ["yash_env::job::JobList::insert"], "insertion (fresh pid / pid of a finished job)"),
    ("set_current", ["yash_env::job::JobList::set_current_job"], "explicit selection, NoSuchJob / NotSuspended"),
    ("extract_if", ["yash_env::job::JobList::extract_if", "yash_env::job::ExtractIf::next"],
     "remove-if: one iterator step from any iterator state (induction: holds when dropped half-way, complete drain removes exactly the selected jobs)"),
    ("misc", ["yash_env::job::JobList::disown_all", "yash_env::job::id::JobId::find",
              "yash_env::job::JobRefMut::expect", "yash_env::job::JobRefMut::state_reported",
              "yash_env::job::JobList::set_last_async_pid"], "%+ %- %n resolution, $!, bookkeeping"),
]


def harnesses(tier):
    """One harness per (operation, occupancy mask): CBMC keeps the whole equation in memory,
    8 arms in one harness ran the SAT back end out of memory (10.6 M variables); one arm is
    ~1 M variables. quick (stopped after 900 s by the harness that runs it): the tables with two
    or three jobs (masks 3, 5, 6, 7); thorough: all 8 masks, both free-list orders where they
    differ, and the 4-slot variant for the re-selecting operations."""
    hs = []
    for op, fns, clause in OPS:
        if tier == "thorough":
            variants = [("m%d" % m, "ascending") for m in range(8)] + [("r%d" % m, "descending") for m in (0, 1, 2, 4)]
        elif op == "misc":
            variants = [("m5", "ascending"), ("m7", "ascending")]
        else:
            variants = [("m%d" % m, "ascending") for m in (3, 5, 6, 7)]
        for v, order in variants:
            hs.append(Harness("c12_%s_%s" % (op, v),
                              "3-slot table, occupancy mask %s, slab free list built in %s order; job states/flags, "
                              "current/previous index and all arguments symbolic; pre-state constrained only by the "
                              "invariant" % (v[1:], order),
                              fns + ["yash_env::job::JobList::current_job", "yash_env::job::JobList::previous_job"],
                              "invariant preserved; " + clause, timeout=1500, mem_gb=16, mod=M, cover_group="c12_" + op,
                              stubs=(["JobList::remove -> its contract (discharged by c12_remove_*), current/previous job "
                                      "havocked under the invariant"] if op == "extract_if" else [])))
    if tier == "thorough":
        M4 = "job::verif_c12_job4"
        opfn = {o: f for o, f, _ in OPS}
        for op in N4_OPS:
            for m in N4_MASKS:
                hs.append(Harness("c12n4_%s_m%d" % (op, m),
                                  "4-slot table, occupancy mask %d (three or four jobs); job states/flags, current/previous index and all "
                                  "arguments symbolic; pre-state constrained only by the invariant" % m,
                                  opfn[op] + ["yash_env::job::JobList::current_job", "yash_env::job::JobList::previous_job"],
                                  "invariant preserved over tables of up to 4 jobs; documented effect of " + op,
                                  timeout=2400, mem_gb=20, mod=M4, cover_group="c12n4_" + op))
    hs.append(Harness("c12_base", "empty table", ["yash_env::job::JobList::new"], "base case of the induction",
                      timeout=600, mod=M))
    return hs


def run(tier, seed, only=None):
    out = core.Outcome(PID, tier, seed)
    out.engines = ["E1 kani 0.68 / CBMC 6.11 / CaDiCaL"]
    out.assumptions = [
        "T1: std HashMap replaced by an association list with the same documented contract (pid index)",
        "inductive step: pre-state = any 3-slot table satisfying the invariant (strictly more states than reachable histories)",
        "insert with an existing pid only when that job has finished (pid reuse), as in the property's quantifier",
        "job names are empty strings; %string / %?string lookup is outside",
    ]

    def body():
        w = core.Workspace("c12")
        sess = setup(w, tier=tier)
        hs = [h for h in harnesses(tier) if not only or h.name in only]
        # longest first (measured: remove > extract_if > insert > update_status > misc > set_current)
        cost = {"remove": 0, "extract_if": 1, "insert": 2, "update_status": 3, "misc": 4, "set_current": 5, "base": 6}
        def rank(h):
            for k, v in cost.items():
                if ("_" + k + "_") in h.name or h.name.endswith("_" + k):
                    return (0 if h.name.startswith("c12n4_") else 1, v)
            return (1, 9)
        hs.sort(key=rank)
        res = sess.run_all(hs, jobs=12)
        out.extra.update({"kani_build_s": round(sess.build_s, 1), "repo_state": w.repo_state,
                          "injected": w.injected, "transforms": w.transforms})
        out.add_kani_results(res, sess, core.load_known(PID), PID)

    return core.guarded(out, body, trusted=["rustc MIR", "Kani 0.68", "CBMC 6.11", "CaDiCaL", "slab crate is real code"])


def replay(path):
    return core.generic_replay(PID, path, setup)
