"""C07 — quoted output reads back verbatim (strings of one character, all of Unicode)."""
from vlib import core
from vlib.core import Harness

PID = "C07"


def setup(w):
    w.transform("T8 write!(f, \"'{}'\", raw) spelled out as write_char/write_str/write_char (core::fmt argument machinery cut)",
                "yash-quote/src/lib.rs", """            write!(f, "'{}'", self.raw)""",
                """            if cfg!(kani) {
                f.write_char('\\'')?;
                f.write_str(self.raw)?;
                f.write_char('\\'')
            } else {
                write!(f, "'{}'", self.raw)
            }""")
    d = w.ext_crate("c07k")
    return core.KaniSession(w, d, tag="c07k", zflags=["stubbing"])


def harnesses(tier):
    Q = ["yash_quote::quoted", "yash_quote::str_needs_quoting", "yash_quote::char_needs_quoting",
         "yash_syntax::parser::lex::is_blank", "yash_syntax::parser::lex::is_token_delimiter_char"]
    return [
        Harness("c07_one_char_decision", "ONE character: every Unicode scalar value", Q,
                "every character the shell would not read back literally (per the real lexer's blank/delimiter predicates) is quoted",
                timeout=3000, mem_gb=20),
        Harness("c07_empty_string", "the empty string", Q[:2], "the empty string is quoted", timeout=600),
    ] + [
        Harness("c07_form_w" + ws, "every string of %d character(s) with UTF-8 widths %s, each any Unicode scalar value of that width"
                % (len(ws), "+".join(ws)), Q + ["<yash_quote::Quoted as core::fmt::Display>::fmt"],
                "the printed form is read back by a reference word reader as exactly the original string; unquoted output only "
                "for strings the shell reads literally", timeout=1800 if tier == "quick" else 3600, mem_gb=16, cover_group="c07_form",
                cbmc_unwind=2 * sum(int(c) for c in ws) + 4,
                stubs=["<&str as Pattern>::is_contained_in -> naive substring search (same contract)",
                       "core::slice::memchr::memchr -> naive byte search (same contract)"])
        for ws in (["1", "2", "3", "11", "12", "21", "111"] if tier == "quick" else ["1", "2", "3", "4", "11", "12", "21", "13", "31", "14", "41", "111", "112", "1111"])
    ]


def run(tier, seed, only=None):
    out = core.Outcome(PID, tier, seed)
    out.engines = ["E1 kani 0.68 / CBMC 6.11 / CaDiCaL"]
    out.assumptions = [
        "the printed form (which quoting style, which escapes) is outside: printing goes through core::fmt and ran CBMC out of memory; "
        "strings of two or more characters are outside: quote() on two symbolic ASCII bytes gave no answer in 25 min "
        "(five std substring searches on symbolic data); so the neighbour rules (:~, {..}, [..]) are not decided",
        "reading back through the real lexer and all state listings (alias, export -p, typeset -p, set, trap, umask) are outside: "
        "they need the parser / command execution (CBMC out of memory on concrete input; async closures)",
        "reference reader of one word written from XCU 2.2/2.3/2.6/2.13; it calls the real lexer's is_blank / is_token_delimiter_char",
    ]

    def body():
        w = core.Workspace("c07")
        sess = setup(w)
        hs = [h for h in harnesses(tier) if not only or h.name in only]
        hs.sort(key=lambda h: -h.timeout)
        res = sess.run_all(hs, jobs=10)
        out.extra.update({"kani_build_s": round(sess.build_s, 1), "repo_state": w.repo_state,
                          "injected": w.injected, "transforms": w.transforms})
        out.add_kani_results(res, sess, core.load_known(PID), PID)

    return core.guarded(out, body, trusted=["rustc MIR", "Kani 0.68", "CBMC 6.11", "CaDiCaL"])


def replay(path):
    return core.generic_replay(PID, path, setup)
