"""C07 — quoted output reads back verbatim (strings of one character, all of Unicode)."""
from vlib import core
from vlib.core import Harness

PID = "C07"


def setup(w):
    d = w.ext_crate("c07k")
    return core.KaniSession(w, d, tag="c07k")


def harnesses(tier):
    Q = ["yash_quote::quoted", "yash_quote::str_needs_quoting", "yash_quote::char_needs_quoting",
         "yash_syntax::parser::lex::is_blank", "yash_syntax::parser::lex::is_token_delimiter_char"]
    return [
        Harness("c07_one_char_decision", "ONE character: every Unicode scalar value", Q,
                "every character the shell would not read back literally (per the real lexer's blank/delimiter predicates) is quoted",
                timeout=3000, mem_gb=20),
        Harness("c07_empty_string", "the empty string", Q[:2], "the empty string is quoted", timeout=600),
    ]


def run(tier, seed, only=None):
    out = core.Outcome(PID, tier, seed)
    out.engines = ["E1 kani 0.68 / CBMC 6.11 / CaDiCaL"]
    out.assumptions = [
        "the printed form (which quoting style, which escapes) is outside: printing goes through core::fmt and ran CBMC out of memory; "
        "strings of two or more characters are outside: quote() on two symbolic ASCII bytes gave no answer in 25 min "
        "(five std substring searches on symbolic data); so the neighbour rules (:~, {..}, [..]) are not decided",
        "reading back through the real lexer and all state listings (alias, export -p, typeset -p, set, trap, umask) are outside: "
        "they need the parser / command execution (CBMC out of memory on concrete input; async closures)",
        "reference reader of one word written from XCU 2.2/2.3/2.6/2.13; it calls the real lexer's is_blank / is_token_delimiter_char",
    ]

    def body():
        w = core.Workspace("c07")
        sess = setup(w)
        hs = [h for h in harnesses(tier) if not only or h.name in only]
        res = sess.run_all(hs, jobs=3)
        out.extra.update({"kani_build_s": round(sess.build_s, 1), "repo_state": w.repo_state,
                          "injected": w.injected, "transforms": w.transforms})
        out.add_kani_results(res, sess, core.load_known(PID), PID)

    return core.guarded(out, body, trusted=["rustc MIR", "Kani 0.68", "CBMC 6.11", "CaDiCaL"])


def replay(path):
    return core.generic_replay(PID, path, setup)
