"""C09 — redirections: one redirection through the real `perform` on a symbolic descriptor
table where every system call may fail. DESIGN.md §6 C09 and §0."""
from vlib import core
from vlib.core import Harness

PID = "C09"
M = "redir::verif_c09_redir"
RS = "yash-semantics/src/redir.rs"


def setup(w, name=""):
    T2 = "T2 operand expansion and here-document temp file replaced by models; bound of perform narrowed"
    for fn in ("expand_text", "expand_word"):
        w.transform(T2, RS, "use crate::expansion::%s;" % fn,
                    "#[cfg(not(kani))]\nuse crate::expansion::%s;\n#[cfg(kani)]\nuse self::verif_c09_redir::%s;" % (fn, fn))
    w.transform(T2, RS,
                ") -> Result<(SavedFd, Option<ExitStatus>), Error>\nwhere\n    S: Runtime + 'static,\n{",
                ") -> Result<(SavedFd, Option<ExitStatus>), Error>\nwhere\n    S: Close + Dup + Fcntl + Fstat + Open + 'static,\n{")
    w.transform(T2, RS, "match here_doc::open_fd(env, content).await {",
                "match verif_c09_redir::open_here_doc_fd(env, content).await {")
    w.transform("T6' MIN_INTERNAL_FD scaled 10 -> 4 (descriptor world of 6)", "yash-env/src/io.rs",
                "pub const MIN_INTERNAL_FD: Fd = Fd(10);", "pub const MIN_INTERNAL_FD: Fd = Fd(4);")
    w.inject(RS, "c09_redir.rs")
    return core.KaniSession(w, w.ws, pkg="yash-semantics", tag="sem", zflags=["stubbing"])


CASES = [
    ("c09_file_in", "0< path"), ("c09_file_out", "1> path (noclobber on/off)"), ("c09_file_clobber", "1>| path"),
    ("c09_file_append", "1>> path"), ("c09_file_inout", "5<> path"), ("c09_file_out_expansion_error", "1> word whose expansion fails"),
    ("c09_fd_in_close", "0<&-"), ("c09_fd_out_close", "1>&-"), ("c09_fd_in_dup", "0<&4"), ("c09_fd_out_dup", "1>&4"),
    ("c09_fd_out_dup_internal", "1>&10 (internal descriptor)"), ("c09_fd_out_dup_self", "4>&4"),
]


def harnesses(tier):
    fns = ["yash_semantics::redir::perform", "yash_semantics::redir::open_normal", "yash_semantics::redir::open_file",
           "yash_semantics::redir::open_file_noclobber", "yash_semantics::redir::copy_fd", "yash_semantics::redir::RedirGuard::undo_redirs"]
    hs = []
    for name, what in CASES:
        hs.append(Harness(name, "redirection `%s`; 12-descriptor table: target, source, fd 3, fds 10-11 arbitrary (open/closed, access, "
                          "close-on-exec); noclobber symbolic; EVERY system call may fail with a symbolic errno" % what, fns,
                          "failed redirection leaves the table untouched (no saved copy leaks); success: target redirected, old target "
                          "saved at >=10 with close-on-exec, nothing else open; undo restores the table exactly",
                          timeout=2400, mem_gb=20, mod=M, cover_group="c09",
                          recursion_bounds=[(r"^std::ptr::drop_glue::<yash_env::source::Location>$", 1),
                                            (r"^<yash_env::source::Location as std::clone::Clone>::clone$", 1),
                                            (r"^<yash_env::source::Location as std::cmp::PartialEq>::eq$", 1)],
                          stubs=["std::hash::RandomState::new -> fixed keys", "T2 models (see assumptions)"]))
    return hs


def run(tier, seed, only=None):
    out = core.Outcome(PID, tier, seed)
    out.engines = ["E1 kani 0.68 / CBMC 6.11 / CaDiCaL"]
    out.assumptions = [
        "T2: the operand's expansion is a model (expansion error | a path | '-' | a decimal digit); the here-document temp file is one "
        "open_tmpfile call; perform's bound is narrowed to Close+Dup+Fcntl+Fstat+Open",
        "stub system: POSIX contract of dup/dup2/close/open/fcntl on a 12-descriptor table, each call may fail; no failures while undoing",
        "one redirection per obligation; on which command kinds the guard is kept or dropped is command execution (outside)",
    ]

    def body():
        w = core.Workspace("c09")
        sess = setup(w)
        hs = [h for h in harnesses(tier) if not only or h.name in only]
        res = sess.run_all(hs, jobs=6)
        out.extra.update({"kani_build_s": round(sess.build_s, 1), "repo_state": w.repo_state,
                          "injected": w.injected, "transforms": w.transforms})
        out.add_kani_results(res, sess, core.load_known(PID), PID)

    return core.guarded(out, body, trusted=["rustc MIR", "Kani 0.68", "CBMC 6.11", "CaDiCaL"])


def replay(path):
    return core.generic_replay(PID, path, setup)
