"""Core of the /verif machinery: snapshot of /repo, harness injection, snapshot
transforms, Kani/CBMC runner with caps, result parsing, concrete-playback replay,
known findings, evidence writing, exit codes.

Exit codes of a check: 0 = all obligations discharged (known findings printed),
1 = replay-confirmed violation (VIOLATION line printed), 2 = inconclusive.
"""
import atexit
import concurrent.futures as cf
import json
import os
import re
import shutil
import signal
import subprocess
import sys
import time

VERIF = os.path.dirname(os.path.dirname(os.path.abspath(__file__)))
REPO = os.environ.get("VERIF_REPO", "/repo")
SCRATCH_BASE = os.environ.get("VERIF_SCRATCH", "/var/tmp")
KNOWN_FINDINGS = os.path.join(VERIF, "known_findings.txt")

ENV = dict(os.environ)
ENV["CARGO_NET_OFFLINE"] = "true"
ENV.pop("RUSTFLAGS", None)
ENV.pop("CARGO_TARGET_DIR", None)


def log(msg):
    print(msg, flush=True)


class Inconclusive(Exception):
    pass


class Workspace:
    """A fresh copy of /repo's working tree (no target/, no .git) plus a copy of
    /verif/harness, in a scratch directory that is removed at exit."""

    def __init__(self, tag):
        self.root = os.path.join(SCRATCH_BASE, "yash-verif.%s.%d" % (tag, os.getpid()))
        if os.path.exists(self.root):
            shutil.rmtree(self.root)
        os.makedirs(self.root)
        self.ws = os.path.join(self.root, "ws")
        self.hdir = os.path.join(self.root, "harness")
        self.target = os.path.join(self.root, "target")
        self.transforms = []
        self.injected = []
        atexit.register(self.cleanup)
        for s in (signal.SIGTERM, signal.SIGINT, signal.SIGHUP):
            signal.signal(s, self._on_signal)
        subprocess.run(["rsync", "-a", "--exclude", "/target", "--exclude", ".git",
                        REPO + "/", self.ws + "/"], check=True)
        shutil.copytree(os.path.join(VERIF, "harness"), self.hdir)
        self.repo_state = self._repo_state()

    def _on_signal(self, signum, frame):
        self.cleanup()
        os._exit(2)

    def _repo_state(self):
        try:
            head = subprocess.run(["git", "-C", REPO, "rev-parse", "--short", "HEAD"],
                                  capture_output=True, text=True).stdout.strip()
            dirty = subprocess.run(["git", "-C", REPO, "status", "--porcelain", "--untracked-files=no"],
                                   capture_output=True, text=True).stdout.strip()
            return head + ("+dirty" if dirty else "")
        except Exception:
            return "unknown"

    def cleanup(self):
        kill_children()
        if os.environ.get("VERIF_KEEP"):
            return
        shutil.rmtree(self.root, ignore_errors=True)

    # -- edits of the snapshot -------------------------------------------------
    def path(self, rel):
        return os.path.join(self.ws, rel)

    def read(self, rel):
        with open(self.path(rel)) as f:
            return f.read()

    def write(self, rel, text):
        with open(self.path(rel), "w") as f:
            f.write(text)

    def inject(self, rel, harness_file, modname=None):
        """Attach /verif/harness/incrate/<harness_file> (its scratch copy) as a
        child module of the snapshot source file `rel`, under cfg(kani)."""
        hp = os.path.join(self.hdir, "incrate", harness_file)
        if not os.path.exists(hp):
            raise Inconclusive("harness file missing: " + harness_file)
        if not os.path.exists(self.path(rel)):
            raise Inconclusive("anchor file missing in /repo: " + rel)
        modname = modname or "verif_" + os.path.splitext(harness_file)[0]
        with open(self.path(rel), "a") as f:
            f.write('\n#[cfg(kani)] #[path = "%s"] mod %s;\n' % (hp, modname))
        self.injected.append("%s <- harness/incrate/%s" % (rel, harness_file))

    def transform(self, label, rel, old, new, count=1):
        """Exact-match textual rule applied to the snapshot; a rule that no longer
        matches makes the run inconclusive."""
        text = self.read(rel)
        n = text.count(old)
        if n != count:
            raise Inconclusive("transform %s: pattern occurs %d times in %s (expected %d)"
                               % (label, n, rel, count))
        self.write(rel, text.replace(old, new))
        if label not in self.transforms:
            self.transforms.append(label)

    def transform_re(self, label, rel, pattern, repl, count=1, flags=0):
        text = self.read(rel)
        new, n = re.subn(pattern, repl, text, flags=flags)
        if n != count:
            raise Inconclusive("transform %s: regex matched %d times in %s (expected %d)"
                               % (label, n, rel, count))
        self.write(rel, new)
        if label not in self.transforms:
            self.transforms.append(label)

    def drop_downstream_dev_deps(self, crate="yash-env"):
        """Native playback builds `cargo test -p <crate>` with cfg(kani) set for the whole
        workspace, so dev-dependencies on downstream crates (used by doc tests only) would be
        compiled against the transformed types. They are removed from the snapshot's manifest."""
        rel = crate + "/Cargo.toml"
        text = self.read(rel)
        new = re.sub(r'^(yash-prompt|yash-semantics) = \{ path = "\.\./[a-z-]+" \}\n', "", text, flags=re.M)
        if new != text:
            self.write(rel, new)
            self.transforms.append("T0 dev-dependencies of %s on downstream crates removed in the snapshot (doc tests only; needed "
                                   "for native playback under cfg(kani))" % crate)

    def disable_unit_tests_under_kani(self, crate):
        """Native playback compiles the crate's own #[cfg(test)] modules with cfg(kani) set; where a
        snapshot transform changes a type under cfg(kani) those modules no longer compile. They are
        switched off for cfg(kani) builds only (the playback test lives in the harness module)."""
        n = 0
        base = os.path.join(self.ws, crate, "src")
        for d, _, files in os.walk(base):
            for fn in files:
                if fn.endswith(".rs"):
                    p = os.path.join(d, fn)
                    with open(p) as f:
                        t = f.read()
                    def fix_line(line):
                        if line.strip() == "#[test]":
                            return line.replace("#[test]", "#[cfg(not(kani))] #[test]")
                        if not re.search(r"#!?\[cfg(_attr)?\(", line):
                            return line
                        # replace the bare `test` predicate (not inside a quoted feature name)
                        parts = re.split(r'("[^"]*")', line)
                        for k in range(0, len(parts), 2):
                            parts[k] = re.sub(r"\btest\b", "all(test, not(kani))", parts[k])
                        return "".join(parts)
                    t2 = "\n".join(fix_line(l) for l in t.split("\n"))
                    if t2 != t:
                        with open(p, "w") as f:
                            f.write(t2)
                        n += 1
        self.transforms.append("T0b the %s unit-test modules are disabled under cfg(kani) in the snapshot (%d files; native "
                               "playback only compiles the harness module's test)" % (crate, n))

    def strip_thorough(self, harness_file):
        """Quick tier: drop the lines marked `// @thorough` from the scratch copy of a harness
        file (fewer harnesses to codegen)."""
        hp = os.path.join(self.hdir, "incrate", harness_file)
        with open(hp) as f:
            lines = f.readlines()
        with open(hp, "w") as f:
            f.writelines(l for l in lines if "// @thorough" not in l)

    def ext_crate(self, name):
        """Instantiate an external harness crate /verif/harness/ext/<name> in the
        scratch area with path dependencies pointing at the snapshot."""
        src = os.path.join(self.hdir, "ext", name)
        toml = os.path.join(src, "Cargo.toml")
        with open(toml) as f:
            t = f.read()
        with open(toml, "w") as f:
            f.write(t.replace("@WS@", self.ws))
        shutil.copy(os.path.join(self.ws, "Cargo.lock"), os.path.join(src, "Cargo.lock"))
        return src


_children = set()


def kill_children():
    for p in list(_children):
        try:
            os.killpg(p.pid, signal.SIGKILL)
        except Exception:
            pass


def run_cmd(cmd, cwd, timeout, mem_gb=None, logfile=None, env=None):
    """Run a command in its own session (process group) under a wall-clock cap and an
    address-space cap (`ulimit -v` in a wrapper shell: no preexec_fn, which is not safe in a
    multi-threaded parent). Returns (rc or None on timeout, output, seconds)."""
    t0 = time.time()
    out = open(logfile, "w") if logfile else subprocess.PIPE
    if mem_gb:
        cmd = ["bash", "-c", "ulimit -v %d; exec \"$@\"" % int(mem_gb * 1024 * 1024), "bash"] + list(cmd)
    p = subprocess.Popen(cmd, cwd=cwd, stdout=out, stderr=subprocess.STDOUT, text=True,
                         env=env or ENV, start_new_session=True)
    _children.add(p)
    try:
        o, _ = p.communicate(timeout=timeout)
        rc = p.returncode
    except subprocess.TimeoutExpired:
        try:
            os.killpg(p.pid, signal.SIGKILL)
        except Exception:
            pass
        o, _ = p.communicate()
        rc = None
    finally:
        _children.discard(p)
    if logfile:
        out.close()
        with open(logfile) as f:
            o = f.read()
    return rc, o or "", time.time() - t0


# ---------------------------------------------------------------------------
# Kani
# ---------------------------------------------------------------------------

class Harness:
    def __init__(self, name, bound, functions, clause, timeout=900, mem_gb=16,
                 extra=None, stubs=None, min_covers=1, witness_class=None, mod=None, cover_group=None,
                 recursion_bounds=None, loop_bounds=None, cbmc_unwind=None, native_enum=None, native_cases=None):
        self.name = name
        self.mod = mod                # module path inside the crate, e.g. "eval::verif_c03_eval"
        self.bound = bound            # text: stated bound
        self.functions = functions    # list of Rust paths encoded
        self.clause = clause          # which clause of the property it decides
        self.timeout = timeout
        self.mem_gb = mem_gb
        self.extra = extra or []
        self.stubs = stubs or []
        self.min_covers = min_covers
        self.witness_class = witness_class
        # covers of harnesses sharing a cover_group only need to be satisfied in ONE harness of the
        # group (arms of a shape split); covers whose description starts with "each:" in every one
        self.cover_group = cover_group
        # [(regex over the pretty function name, bound)]: recursion bound for specific (drop-glue)
        # functions, passed to CBMC as --unwindset with the unwinding assertion kept
        self.recursion_bounds = recursion_bounds or []
        # [(regex over "function <pretty name>" of a loop, bound)]: per-loop unwinding bound (CBMC --unwindset,
        # unwinding assertion kept) for loops whose trip count symbolic execution cannot see (e.g. a digit loop
        # over a slice whose length was computed from symbolic data)
        self.loop_bounds = loop_bounds or []
        # global unwinding bound passed to CBMC directly (Kani refuses its own unwind flags next to --cbmc-args --unwindset)
        self.cbmc_unwind = cbmc_unwind
        # fallback replay: candidate values (u32) for each 4-byte kani::any() of the harness, in call order; the
        # harness is run natively on the whole product when Kani's own concrete playback yields nothing that
        # reproduces (used where a stub over-approximates, so that a solver model need not be realisable)
        self.native_enum = native_enum
        # explicit input vectors for the same fallback: [[(value, size_in_bytes), ...], ...]
        self.native_cases = native_cases


# The drop glue / clone / eq of yash_env::source::Location are recursive
# (Location -> Rc<Code> -> Rc<Source> -> Source::Alias { original: Location }); every Location a harness
# creates is non-nested, so the recursion is bounded at 1 with the unwinding assertion kept.
LOCATION_RECURSION = [(r"^std::ptr::drop_glue::<yash_env::source::Location>$", 1),
                      (r"^<yash_env::source::Location as std::clone::Clone>::clone$", 1),
                      (r"^<yash_env::source::Location as std::cmp::PartialEq>::eq$", 1)]


class KaniResult:
    def __init__(self, h):
        self.h = h
        self.status = "inconclusive"   # ok | failed | inconclusive
        self.reason = ""
        self.checks_total = 0
        self.checks_failed = 0
        self.checks_unreachable = 0
        self.covers_total = 0
        self.covers_sat = 0
        self.failed_props = []         # (name, description, location)
        self.solver_s = 0.0
        self.verif_s = 0.0
        self.wall_s = 0.0
        self.sat_vars = 0
        self.sat_clauses = 0
        self.sat_queries = 0
        self.log = ""
        self.replay = None             # dict filled by replay step
        self.covers = {}               # description -> status

    def to_json(self):
        d = {
            "harness": self.h.name, "clause": self.h.clause, "bound": self.h.bound,
            "functions": self.h.functions, "stubs": self.h.stubs,
            "verdict": self.status, "reason": self.reason,
            "cbmc_properties": self.checks_total, "cbmc_failed": self.checks_failed,
            "cbmc_unreachable": self.checks_unreachable,
            "covers_satisfied": "%d/%d" % (self.covers_sat, self.covers_total),
            "sat_queries": self.sat_queries, "sat_variables": self.sat_vars,
            "sat_clauses": self.sat_clauses,
            "solver_s": round(self.solver_s, 2), "verification_s": round(self.verif_s, 2),
            "wall_s": round(self.wall_s, 1),
        }
        if self.failed_props:
            d["failed_properties"] = [{"check": a, "description": b, "location": c}
                                      for a, b, c in self.failed_props[:10]]
        if self.replay:
            d["replay"] = self.replay
        return d


CHECK_RE = re.compile(r"^Check \d+: (.+)\n\t - Status: (\w+)\n\t - Description: \"(.*)\"\n(?:\t - Location: (.*)\n)?",
                      re.M)


def parse_kani(out, res):
    res.log = out
    m = re.search(r"\*\* (\d+) of (\d+) failed(?: \((.*?)\))?", out)
    if m:
        res.checks_failed = int(m.group(1))
        res.checks_total = int(m.group(2))
        if m.group(3):
            u = re.search(r"(\d+) unreachable", m.group(3))
            if u:
                res.checks_unreachable = int(u.group(1))
    m = re.search(r"\*\* (\d+) of (\d+) cover properties satisfied", out)
    if m:
        res.covers_sat, res.covers_total = int(m.group(1)), int(m.group(2))
    m = re.search(r"Verification Time: ([\d.]+)s", out)
    if m:
        res.verif_s = float(m.group(1))
    res.solver_s = sum(float(x) for x in re.findall(r"Runtime Solver: ([\d.eE+-]+)s", out))
    res.sat_queries = len(re.findall(r"Solving with ", out))
    vc = re.findall(r"(\d+) variables, (\d+) clauses", out)
    if vc:
        res.sat_vars = max(int(a) for a, _ in vc)
        res.sat_clauses = max(int(b) for _, b in vc)
    for name, status, desc, loc in CHECK_RE.findall(out):
        if status in ("FAILURE", "UNDETERMINED"):
            res.failed_props.append((name, desc, loc or ""))
        if ".cover." in name:
            prev = res.covers.get(desc)
            if prev != "SATISFIED":
                res.covers[desc] = status
    ok = "VERIFICATION:- SUCCESSFUL" in out
    failed = "VERIFICATION:- FAILED" in out
    if "Status: ERROR" in out or "CBMC failed" in out or "std::bad_alloc" in out \
            or "CBMC appears to have run out of memory" in out:
        res.status, res.reason = "inconclusive", "CBMC error / out of memory"
        return
    if ok and res.checks_failed == 0:
        if res.covers_total < res.h.min_covers:
            res.status, res.reason = "inconclusive", "fewer cover witnesses than expected"
        elif res.covers_sat != res.covers_total:
            bad = [d for d, st in res.covers.items() if st != "SATISFIED"
                   and (res.h.cover_group is None or d.startswith("each:"))]
            if bad:
                res.status = "inconclusive"
                res.reason = "vacuity guard: cover witness unsatisfied: " + "; ".join(bad[:3])
            else:
                res.status = "ok"   # group-level covers are judged in Outcome.add_kani_results
        else:
            res.status = "ok"
        return
    if failed:
        real = [p for p in res.failed_props if "unwinding assertion" not in p[1]
                and not p[0].endswith(".unwind") and ".unwind." not in p[0]
                and "unsupported" not in p[1].lower()]
        unwind = [p for p in res.failed_props if p not in real]
        # a failed check inside the harness code that is not one of its stated property
        # assertions ("Cnn ...") is a defect of the machinery (e.g. an index error in a stub)
        infra = [p for p in real if "/harness/" in p[2] and not re.match(r"C\d\d ", p[1].strip('"\\ '))]
        real = [p for p in real if p not in infra]
        if infra and not real:
            res.status = "inconclusive"
            res.reason = "harness-internal check failed (machinery error, not a verdict): %s at %s" % (infra[0][1], infra[0][2])
            return
        if real:
            res.status = "failed"
            res.reason = "; ".join(sorted(set(p[1] for p in real))[:4])
        elif unwind:
            res.status = "inconclusive"
            res.reason = "bound too small or unsupported construct: " + unwind[0][1]
        else:
            res.status, res.reason = "inconclusive", "FAILED without a failed property (see log)"
        return
    if "error: could not compile" in out or re.search(r"^error(\[E\d+\])?:", out, re.M):
        errs = re.findall(r"^error(?:\[E\d+\])?: (.*)$", out, re.M)
        res.status = "inconclusive"
        res.reason = "harness does not compile against current tree: " + "; ".join(errs[:3])
        return
    res.status, res.reason = "inconclusive", "no verdict in Kani output"


class KaniSession:
    """Builds a package (in-crate harnesses, inside the snapshot workspace) or an
    external harness crate once, then runs harnesses in parallel, each under caps."""

    def __init__(self, wsobj, cwd, pkg=None, tag="k", zflags=None):
        self.w = wsobj
        self.cwd = cwd
        self.pkg = pkg
        self.target = os.path.join(wsobj.root, "target-" + tag)
        self.zflags = zflags or []
        self.build_s = 0.0
        self.built = False
        self.build_log = ""

    def base_cmd(self):
        cmd = ["cargo", "kani"]
        if self.pkg:
            cmd += ["-p", self.pkg]
        cmd += ["--target-dir", self.target]
        for z in self.zflags:
            cmd += ["-Z", z]
        return cmd

    @staticmethod
    def sel(h):
        if h.mod:
            return ["--harness", h.mod + "::" + h.name, "--exact"]
        return ["--harness", h.name, "--exact"]   # external harness crates define harnesses at the crate root

    def build(self, timeout=1500):
        rc, out, dt = run_cmd(self.base_cmd() + ["--only-codegen"], self.cwd, timeout)
        self.build_s = dt
        self.build_log = out
        if rc != 0:
            errs = re.findall(r"^error(?:\[E\d+\])?: (.*)$", out, re.M)
            tail = "; ".join(errs[:4]) if errs else out[-600:]
            if os.environ.get("VERIF_BUILD_LOG"):
                with open(os.environ["VERIF_BUILD_LOG"], "w") as f:
                    f.write(out)
            raise Inconclusive("Kani build of %s failed (rc=%s): %s" % (self.pkg or self.cwd, rc, tail))
        self.built = True

    def unwindset_args(self, h):
        """Resolve h.recursion_bounds to mangled identifiers read from the harness's goto binary."""
        if not h.recursion_bounds and not h.loop_bounds:
            return ["-Z", "unstable-options", "--cbmc-args", "--unwind", str(h.cbmc_unwind)] if h.cbmc_unwind else []
        import glob
        outs = [p for p in glob.glob(os.path.join(self.target, "kani", "**", "out", "*.out"), recursive=True)
                if p.endswith(h.name + ".out")]
        if not outs:
            return []
        rc, out, _ = run_cmd(["goto-instrument", "--list-goto-functions", outs[0]], self.cwd, 600)
        pairs = []
        for line in out.splitlines():
            m = re.match(r"^(.*) /\* (\S+) \*/$", line.strip())
            if not m:
                continue
            for rx, bound in h.recursion_bounds:
                if re.search(rx, m.group(1)):
                    pairs.append("%s:%d" % (m.group(2), bound))
        if h.loop_bounds:
            rc, out, _ = run_cmd(["goto-instrument", "--show-loops", outs[0]], self.cwd, 600)
            for m in re.finditer(r"^Loop (\S+):\n\s+(.*)$", out, re.M):
                for rx, bound in h.loop_bounds:
                    if re.search(rx, m.group(2)):
                        pairs.append("%s:%d" % (m.group(1), bound))
        pre = ["--unwind", str(h.cbmc_unwind)] if h.cbmc_unwind else []
        if not pairs:
            return ["-Z", "unstable-options", "--cbmc-args"] + pre if pre else []
        return ["-Z", "unstable-options", "--cbmc-args"] + pre + ["--unwindset", ",".join(sorted(set(pairs)))]

    def run_one(self, h, extra_kani=None):
        res = KaniResult(h)
        # (concrete playback is NOT requested up front: Kani then runs CBMC with --trace and without
        # --slice-formula, which doubled the memory of the C12 arms; a failed harness is re-run with
        # playback in the replay step)
        cmd = self.base_cmd() + self.sel(h) + h.extra + (extra_kani or []) + self.unwindset_args(h)
        logfile = os.path.join(self.w.root, "log-%s.txt" % h.name)
        rc, out, dt = run_cmd(cmd, self.cwd, h.timeout, mem_gb=h.mem_gb, logfile=logfile)
        res.wall_s = dt
        if rc is None:
            res.log = out
            res.status, res.reason = "inconclusive", "wall-clock cap of %ds reached" % h.timeout
            return res
        parse_kani(out, res)
        return res

    def run_all(self, harnesses, jobs=6):
        if not self.built:
            self.build()
        results = []
        with cf.ThreadPoolExecutor(max_workers=jobs) as ex:
            futs = {ex.submit(self.run_one, h): h for h in harnesses}
            for f in cf.as_completed(futs):
                r = f.result()
                log("  [%s] %-40s %-12s %6.1fs  checks=%d covers=%d/%d %s" % (
                    time.strftime("%H:%M:%S"), r.h.name, r.status, r.wall_s, r.checks_total,
                    r.covers_sat, r.covers_total, r.reason[:150]))
                results.append(r)
        order = {h.name: i for i, h in enumerate(harnesses)}
        results.sort(key=lambda r: order[r.h.name])
        return results

    # -- replay ----------------------------------------------------------------
    def replay(self, res, prop_id, harness_src_rel=None):
        """Re-run a failed harness with concrete playback, store the generated unit
        test under /verif/replays/<id>/ and execute it natively (dev profile) against
        the snapshot. Returns True iff the counterexample reproduces natively."""
        h = res.h
        cmd = (self.base_cmd() + self.sel(h) + ["-Z", "concrete-playback", "--concrete-playback=print"]
               + h.extra + self.unwindset_args(h))
        rc, out, dt = run_cmd(cmd, self.cwd, h.timeout * 2, mem_gb=max(h.mem_gb, 24))
        try:
            dbg = os.path.join(SCRATCH_BASE, "yv")
            os.makedirs(dbg, exist_ok=True)
            with open(os.path.join(dbg, "replay-%s.log" % h.name), "w") as f:
                f.write("rc=%s wall=%.0fs\n" % (rc, dt) + out[-20000:])
        except Exception:
            pass
        blocks = re.findall(r"```\n(.*?)```", out, re.S)
        blocks = [b for b in blocks if "#[test]" in b and "Check for `cover`" not in b]
        rdir = os.path.join(VERIF, "replays", prop_id)
        os.makedirs(rdir, exist_ok=True)
        rpath = os.path.join(rdir, h.name + ".rs")
        info = {"path": rpath, "reproduced": False}
        res.replay = info
        header = ("// Concrete counterexample for harness %s (property %s).\n"
                  "// failed checks: %s\n// replay: ./check %s --replay %s\n"
                  % (h.name, prop_id, res.reason, prop_id, rpath))
        if not blocks:
            info["note"] = "Kani produced no concrete playback test"
            with open(rpath, "w") as f:
                f.write(header + "// no concrete playback available\n")
            return False
        note = ""
        for test in blocks[:4]:
            ok, note = self.run_playback(h, test)
            if ok:
                with open(rpath, "w") as f:
                    f.write(header + test)
                info["reproduced"] = True
                info["note"] = note
                m = re.search(r"concrete_vals: Vec<Vec<u8>> = vec!\[(.*?)\];", test, re.S)
                if m:
                    info["values"] = [c.strip() for c in re.findall(r"// (.*)", m.group(1))][:16]
                return True
        with open(rpath, "w") as f:
            f.write(header + blocks[0])
        info["note"] = note
        return False

    def replay_enum(self, res, prop_id):
        """Native enumeration replay: run the harness natively (Kani's playback runtime) on every combination of the
        candidate values declared for it; `kani::assume` violations are skipped. True iff some combination fails."""
        h = res.h
        if not h.native_enum and not h.native_cases:
            return False
        if h.native_cases:
            # explicit cases: one "position" per case is not a product; encode as a list of full input vectors
            cases = ", ".join("vec![%s]" % ", ".join("vec![%s]" % ", ".join("%du8" % b for b in int(v).to_bytes(sz, "little"))
                                                     for v, sz in case) for case in h.native_cases)
            body = """
    let cases: Vec<Vec<Vec<u8>>> = vec![%s];
    let mut tried = 0u64;
    for vals in cases {
        tried += 1;
        let shown = format!("{:?}", vals);
        let r = std::panic::catch_unwind(|| kani::concrete_playback_run(vals, %s));
        if let Err(p) = r {
            let msg = if let Some(s) = p.downcast_ref::<String>() { s.clone() } else if let Some(s) = p.downcast_ref::<&str>() { s.to_string() } else { String::from("?") };
            if !msg.contains("kani::assume") && !msg.contains("Not enough det vals") {
                let _ = std::panic::take_hook();
                panic!("REPRODUCED natively with input bytes {} (run {}): {}", shown, tried, msg);
            }
        }
    }
    println!("enumeration finished: {} runs, none failed", tried);
""" % (cases, h.name)
            test = "\n#[test]\nfn kani_concrete_playback_enum_%s() {\n    std::panic::set_hook(Box::new(|_| {}));%s}\n" % (h.name, body)
            return self._finish_enum(res, prop_id, test)
        arrays = ", ".join("vec![%s]" % ", ".join("%du32" % v for v in cand) for cand in h.native_enum)
        test = """
#[test]
fn kani_concrete_playback_enum_%(n)s() {
    std::panic::set_hook(Box::new(|_| {}));
    let cands: Vec<Vec<u32>> = vec![%(arrays)s];
    let mut idx = vec![0usize; cands.len()];
    let mut tried = 0u64;
    loop {
        let combo: Vec<u32> = idx.iter().enumerate().map(|(k, &i)| cands[k][i]).collect();
        let vals: Vec<Vec<u8>> = combo.iter().map(|c| c.to_le_bytes().to_vec()).collect();
        tried += 1;
        let r = std::panic::catch_unwind(|| kani::concrete_playback_run(vals, %(n)s));
        if let Err(p) = r {
            let msg = if let Some(s) = p.downcast_ref::<String>() { s.clone() } else if let Some(s) = p.downcast_ref::<&str>() { s.to_string() } else { String::from("?") };
            if !msg.contains("kani::assume") && !msg.contains("Not enough det vals") {
                let _ = std::panic::take_hook();
                panic!("REPRODUCED natively with inputs {:?} (after %%d runs): {}", combo, msg);
            }
        }
        let mut k = 0;
        loop {
            if k == idx.len() { println!("enumeration finished: {} runs, none failed", tried); return; }
            idx[k] += 1;
            if idx[k] < cands[k].len() { break; }
            idx[k] = 0;
            k += 1;
        }
    }
}
""" % {"n": h.name, "arrays": arrays}
        test = test.replace("(after %d runs)", "(run {})").replace('{:?} (run {}): {}", combo, msg', '{:?} (run {}): {}", combo, tried, msg')
        return self._finish_enum(res, prop_id, test)

    def _finish_enum(self, res, prop_id, test):
        h = res.h
        ok, note = self.run_playback(h, test)
        rdir = os.path.join(VERIF, "replays", prop_id)
        os.makedirs(rdir, exist_ok=True)
        rpath = os.path.join(rdir, h.name + ".rs")
        info = {"path": rpath, "reproduced": ok, "note": "native enumeration replay: " + note}
        res.replay = info
        if ok:
            with open(rpath, "w") as f:
                f.write("// Concrete counterexample for harness %s (property %s), found by native enumeration replay.\n"
                        "// failed checks: %s\n// %s\n// replay: ./check %s --replay %s\n%s"
                        % (h.name, prop_id, res.reason, note, prop_id, rpath, test))
        return ok

    def harness_source(self, h):
        """Locate the scratch copy of the harness source that defines fn <name>."""
        # harness functions are often generated by a macro invocation that only mentions the name
        pat = re.compile(r"\b%s\b" % re.escape(h.name))
        for base in (os.path.join(self.w.hdir, "incrate"), os.path.join(self.w.hdir, "ext")):
            for d, _, files in os.walk(base):
                for fn in files:
                    if fn.endswith(".rs"):
                        p = os.path.join(d, fn)
                        with open(p) as f:
                            if pat.search(f.read()):
                                return p
        return None

    def run_playback(self, h, test_code):
        src = self.harness_source(h)
        if not src:
            return False, "harness source not found for playback"
        with open(src) as f:
            orig = f.read()
        try:
            with open(src, "w") as f:
                f.write(orig + "\n" + test_code + "\n")
            m = re.search(r"fn (kani_concrete_playback_\w+)", test_code)
            tname = m.group(1) if m else "kani_concrete_playback"
            env = dict(ENV)
            env["CARGO_TARGET_DIR"] = self.target + "-playback"
            cmd = ["cargo", "kani", "playback", "-Z", "concrete-playback"]
            if self.pkg:
                cmd += ["-p", self.pkg]
            cmd += ["--", tname]
            rc, out, dt = run_cmd(cmd, self.cwd, 1500, env=env)
            if rc is None:
                return False, "native playback timed out"
            if re.search(r"test result: FAILED", out) or "panicked at" in out:
                pm = re.search(r"panicked at [^\n]*\n([^\n]*)", out)
                rm = re.search(r"REPRODUCED natively[^\n]*", out)
                return True, "native playback panicked: " + (rm.group(0) if rm else (pm.group(1).strip() if pm else ""))
            if re.search(r"test result: ok. [1-9]", out):
                return False, "native playback passed (counterexample does not reproduce)"
            return False, "native playback inconclusive: " + out[-300:]
        finally:
            with open(src, "w") as f:
                f.write(orig)


def run_sessions(pairs, jobs=8):
    """pairs: [(KaniSession, [Harness])]. Builds the sessions concurrently, then runs all
    harnesses of all sessions in ONE pool (longest timeout first). Returns {session: [results]}."""
    pairs = [(s, hs) for s, hs in pairs if hs]
    errs = []

    def build(s):
        try:
            s.build()
        except Inconclusive as e:
            errs.append(str(e))

    with cf.ThreadPoolExecutor(max_workers=max(1, len(pairs))) as ex:
        list(ex.map(build, [s for s, _ in pairs]))
    if errs:
        raise Inconclusive("; ".join(errs))
    work = [(s, h) for s, hs in pairs for h in hs]
    work.sort(key=lambda sh: -sh[1].timeout)
    out = {s: [] for s, _ in pairs}
    with cf.ThreadPoolExecutor(max_workers=jobs) as ex:
        futs = {ex.submit(s.run_one, h): (s, h) for s, h in work}
        for f in cf.as_completed(futs):
            s, h = futs[f]
            r = f.result()
            log("  [%s] %-40s %-12s %6.1fs  checks=%d covers=%d/%d %s" % (
                time.strftime("%H:%M:%S"), r.h.name, r.status, r.wall_s, r.checks_total,
                r.covers_sat, r.covers_total, r.reason[:150]))
            out[s].append(r)
    return out


# ---------------------------------------------------------------------------
# Known findings
# ---------------------------------------------------------------------------

def load_known(prop_id):
    """Entries:  property=<id> key=<key> <free text>   (suppresses that key)
                 fixed: property=<id> <commit> <text>  (suppresses nothing)"""
    known = {}
    if not os.path.exists(KNOWN_FINDINGS):
        return known
    with open(KNOWN_FINDINGS) as f:
        for line in f:
            line = line.strip()
            if not line or line.startswith("#") or line.startswith("fixed:"):
                continue
            m = re.match(r"property=(\S+)\s+key=(\S+)\s*(.*)", line)
            if m and m.group(1) == prop_id:
                known[m.group(2)] = m.group(3)
    return known


# ---------------------------------------------------------------------------
# Check outcome / evidence
# ---------------------------------------------------------------------------

class Outcome:
    def __init__(self, prop_id, tier, seed):
        self.prop_id = prop_id
        self.tier = tier
        self.seed = seed
        self.t0 = time.time()
        self.obligations = []      # json dicts
        self.violations = []       # (key, replay_path, text)
        self.known_hits = []       # (key, text)
        self.inconclusive = []     # text
        self.assumptions = []
        self.samples = []
        self.engines = []
        self.functions = set()
        self.extra = {}
        self.max_replays = 2
        self.unreplayed = []
        self.evaluations = 0
        self.nontrivial = 0
        self.solver_s = 0.0
        self.queries = 0

    def add_kani_results(self, results, session, known, prop_id, confirm=None):
        """Fold Kani results in; failed harnesses are replayed natively first.
        `confirm(res)` optionally performs the second confirmation against the
        untransformed crates (returns (bool, note))."""
        groups = {}
        for r in results:
            if r.h.cover_group:
                g = groups.setdefault(r.h.cover_group, {})
                for d, st in r.covers.items():
                    if st == "SATISFIED" or d not in g:
                        g[d] = st
        for gname, g in groups.items():
            members = [r for r in results if r.h.cover_group == gname]
            if all(r.status == "ok" for r in members):
                bad = [d for d, st in g.items() if st != "SATISFIED"]
                if bad:
                    self.inconclusive.append("vacuity guard: cover witness satisfied in no arm of %s: %s"
                                             % (gname, "; ".join(bad[:3])))
        for r in results:
            self.evaluations += r.checks_total + r.covers_total
            self.nontrivial += max(0, r.checks_total - r.checks_unreachable - r.checks_failed) + r.covers_sat
            self.solver_s += r.solver_s
            self.queries += r.sat_queries
            for fn in r.h.functions:
                self.functions.add(fn)
            if r.status == "failed" and len(self.violations) >= self.max_replays:
                # enough counterexamples were already replayed and confirmed natively in this run
                r.replay = {"note": "not replayed: %d counterexamples of this run were already confirmed natively"
                                    % self.max_replays}
                self.unreplayed.append(r.h.name)
            elif r.status == "failed":
                # where candidate inputs are declared, the cheap native enumeration is tried first (seconds);
                # Kani's concrete playback (a second, slower solver run) is the fallback
                reproduced = session.replay_enum(r, prop_id) if (r.h.native_enum or r.h.native_cases) else False
                if not reproduced:
                    reproduced = session.replay(r, prop_id)
                if reproduced and confirm:
                    ok2, note2 = confirm(r)
                    r.replay["second_confirmation"] = note2
                    reproduced = ok2
                key = r.h.witness_class or r.h.name
                if reproduced:
                    if key in known:
                        self.known_hits.append((key, known[key]))
                    else:
                        self.violations.append((key, r.replay["path"], r.reason))
                else:
                    self.inconclusive.append("%s: solver counterexample did not reproduce natively (%s)"
                                             % (r.h.name, (r.replay or {}).get("note", "")))
            elif r.status == "inconclusive":
                self.inconclusive.append("%s: %s" % (r.h.name, r.reason))
            self.obligations.append(r.to_json())

    def finish(self, level="model_checking", rule=None, trusted=None, checker_cmd=None):
        wall = time.time() - self.t0
        discharged = sum(1 for o in self.obligations if o.get("verdict") == "ok")
        cov = {
            "evaluations": int(self.evaluations),
            "distinct_nontrivial": int(self.nontrivial),
            "rule": rule or ("evaluations = solver-checked properties (CBMC assertion instances incl. "
                             "unwinding assertions and cover witnesses, or SMT queries) generated from "
                             "the current /repo source; distinct_nontrivial = those that are reachable "
                             "(not reported UNREACHABLE) and proved, plus satisfied cover witnesses — each "
                             "is a distinct source-level property instance"),
            "samples": self.samples[:40] if self.samples else [o for o in self.obligations[:5]],
            "obligations": len(self.obligations),
            "discharged": discharged,
            "checker_cmd": checker_cmd or ("./check %s --tier %s" % (self.prop_id, self.tier)),
            "trusted_base": trusted or [],
            "exhaustive": False,
            "functions_encoded": sorted(self.functions),
            "solver_queries": int(self.queries),
            "solver_time_s": round(self.solver_s, 2),
            "engines": self.engines,
            "obligation_results": self.obligations,
            "inconclusive": self.inconclusive,
            "known_findings_hit": [k for k, _ in self.known_hits],
            "failed_but_not_replayed": self.unreplayed,
        }
        cov.update(self.extra)
        ev = {
            "property_id": self.prop_id,
            "tier": self.tier,
            "seed": int(self.seed),
            "level": level,
            "coverage": cov,
            "assumptions": self.assumptions,
            "wall_s": round(wall, 1),
            "violations": len(self.violations),
        }
        evdir = os.environ.get("VERIF_EVIDENCE_DIR", os.path.join(VERIF, "evidence"))
        os.makedirs(evdir, exist_ok=True)
        with open(os.path.join(evdir, self.prop_id + ".json"), "w") as f:
            json.dump(ev, f, indent=1)
        for key, text in self.known_hits:
            log("KNOWN-FINDING: property=%s %s (%s)" % (self.prop_id, key, text))
        for key, path, text in self.violations:
            log("VIOLATION property=%s replay=%s" % (self.prop_id, path))
            log("  witness=%s %s" % (key, text))
        if self.violations:
            return 1
        if self.inconclusive:
            for t in self.inconclusive:
                log("INCONCLUSIVE property=%s reason=%s" % (self.prop_id, t))
            return 2
        log("OK property=%s tier=%s obligations=%d discharged=%d wall=%.0fs"
            % (self.prop_id, self.tier, len(self.obligations), discharged, wall))
        return 0


def guarded(outcome, body, **finish_kw):
    """Run body(); turn Inconclusive into an inconclusive evidence file + exit 2."""
    try:
        body()
    except Inconclusive as e:
        outcome.inconclusive.append(str(e))
    return outcome.finish(**finish_kw)


def generic_replay(prop_id, path, setup):
    """./check <id> --replay <path>: rebuild the snapshot + harness via setup(ws) ->
    KaniSession and execute the stored concrete-playback test natively."""
    with open(path) as f:
        text = f.read()
    m = re.search(r"Concrete counterexample for harness (\w+)", text)
    if not m:
        log("replay file has no harness header: " + path)
        return 2
    name = m.group(1)
    w = Workspace(prop_id.lower() + "r")
    try:
        sess = setup(w, name)
    except TypeError:
        sess = setup(w)
    h = Harness(name, "", [], "")
    code = text[text.index("#[test]"):] if "#[test]" in text else text
    ok, note = sess.run_playback(h, code)
    log("replay %s: %s" % (name, note))
    if ok:
        log("VIOLATION property=%s replay=%s" % (prop_id, path))
        return 1
    return 0
