#!/usr/bin/env python3
"""C04, second sentence: prefix / suffix removal deletes exactly the shortest or longest matching
prefix or suffix.

What this stage is - and is not. WHERE a match is found depends on the regex crate's search order
(leftmost-first, lazy / greedy after swap_greed), which has no counterpart in z3's regular-language
theory, so this is NOT a solver decision over all strings. It is a conformance validation of the real
code at SOLVER-CHOSEN witnesses: for every pattern of a bounded-exhaustive family and each of the four
trim forms, z3 (sequence theory, over the POSIX reading R of the pattern) produces strings that have at
least two different matching prefixes (suffixes) - the only strings on which "shortest" and "longest"
differ -, strings in which the pattern matches twice in a row at the trimmed end, strings with a leading
period, strings whose longer match starts with a multi-byte character, members and non-members; the expected result is computed
from R alone (set of cut points k with s[..k] in R, min / max); the REAL expansion `${x#pat}` ... runs
natively (yash-syntax parser, yash-semantics trim.rs, yash-fnmatch find / rfind) through
harness/ext/trim_driver and must agree. A disagreement is reported with the (form, pattern, string)
triple and is re-checked natively before it is printed.
"""
import argparse
import itertools
import json
import os
import subprocess
import sys
import time

sys.path.insert(0, os.path.dirname(os.path.abspath(__file__)))
import relang
from relang import N, L, parse_spec, tok_line, show

FORMS = ["#", "##", "%", "%%"]


def family(tier):
    """Token sequences of <= 3 (thorough: 4) pattern items over a small item alphabet."""
    items = [N("a"), N("b"), N("?"), N("*"), N("[ab]"), N("[!a]"), L("*"), N("\u00e9")]
    if tier == "thorough":
        items += [N("[a-b]"), L("?"), N("c"), N(".")]
    n = 4 if tier == "thorough" else 3
    core = [N("a"), N("?"), N("*"), N("[ab]")]
    out = []
    for k in range(1, n + 1):
        # quick: the full item alphabet up to two items, three items over the four core items only;
        # thorough: the full alphabet up to three items, four items over the core items
        pool = core if ((tier == "quick" and k == 3) or k == 4) else items
        for combo in itertools.product(pool, repeat=k):
            t = [x for it in combo for x in it]
            # skip adjacent stars (same language, nothing new)
            if any(combo[i] == N("*") and combo[i + 1] == N("*") for i in range(len(combo) - 1)):
                continue
            out.append(t)
    return out


def cut_points(items, s, prefix):
    """All k such that s[:k] (prefix) / s[k:] (suffix) is matched completely by the pattern."""
    ks = []
    for k in range(len(s) + 1):
        part = s[:k] if prefix else s[k:]
        if relang.ref_match_from(items, part, 0, 0, True):
            ks.append(k)
    return ks


def expected(items, s, form):
    prefix = form[0] == "#"
    ks = cut_points(items, s, prefix)
    if not ks:
        return s
    if prefix:
        k = min(ks) if form == "#" else max(ks)
        return s[k:]
    k = max(ks) if form == "%" else min(ks)
    return s[:k]


def witnesses(e, items, prefix, n_multi, n_other):
    """Strings over {a, b, c} chosen by z3: (i) with two different matching cuts, (ii) members of
    `R . Sigma*` (prefix) / `Sigma* . R` (suffix), (iii) others."""
    z3 = e.z3
    R = e.spec_body(items)
    # value alphabet: two pattern letters, a letter no pattern item names, a multi-byte character and the period
    sigma = z3.Star(z3.Union(e.lit("a"), e.lit("b"), e.lit("c"), e.lit("\u00e9"), e.lit(".")))
    s = e.s
    p, m, r = z3.String("p"), z3.String("m"), z3.String("r")
    out = []

    def models(constraints, n):
        e.solver.push()
        e.solver.add(z3.InRe(s, sigma), z3.Length(s) <= 6)
        for c in constraints:
            e.solver.add(c)
        got = []
        for _ in range(n):
            t0 = time.time()
            res = e.solver.check()
            e.queries += 1
            e.solver_s += time.time() - t0
            if res != z3.sat:
                break
            w = relang.unescape(e.solver.model().eval(s, model_completion=True).as_string())
            e.solver.add(s != z3.StringVal(w))
            got.append(w)
        e.solver.pop()
        return got

    nonempty = z3.Intersect(R, z3.Concat(e.allchar, e.full))
    if prefix:
        two = [s == z3.Concat(p, m, r), z3.Length(m) > 0, z3.InRe(p, R), z3.InRe(z3.Concat(p, m), R)]
        one = [z3.InRe(s, z3.Concat(R, sigma))]
        twice = [z3.InRe(s, z3.Concat(nonempty, nonempty, sigma))]          # the pattern matches twice in a row at the trimmed end
        dot = [z3.InRe(s, z3.Concat(e.lit("."), sigma)), one[0]]            # a value with a leading period
        mb = [s == z3.Concat(p, m, r), z3.InRe(p, R), z3.InRe(z3.Concat(p, m), R), z3.PrefixOf(z3.StringVal("\u00e9"), m)]
    else:
        two = [s == z3.Concat(r, m, p), z3.Length(m) > 0, z3.InRe(p, R), z3.InRe(z3.Concat(m, p), R)]
        one = [z3.InRe(s, z3.Concat(sigma, R))]
        twice = [z3.InRe(s, z3.Concat(sigma, nonempty, nonempty))]
        dot = [z3.InRe(s, z3.Concat(e.lit("."), sigma)), one[0]]
        # two suffix cuts, the longer match starting with a multi-byte character
        mb = [s == z3.Concat(r, m, p), z3.Length(m) > 0, z3.InRe(p, R), z3.InRe(z3.Concat(m, p), R), z3.PrefixOf(z3.StringVal("\u00e9"), m)]
    out += models(two, n_multi)
    out += models(one, n_other)
    out += models(twice, 1)
    out += models(dot, 1)
    out += models(mb, 1)
    out += models([z3.Not(one[0])], 1)
    return list(dict.fromkeys(out))


def gen_cases(arg):
    """Worker: witnesses and expected results for a chunk of patterns (own z3 context)."""
    chunk, n_multi, n_other = arg
    e = relang.Enc()
    cases, multi = [], 0
    for t in chunk:
        items = parse_spec(t)
        for prefix in (True, False):
            for w in witnesses(e, items, prefix, n_multi, n_other):
                if len(cut_points(items, w, prefix)) >= 2:
                    multi += 1
                for form in (("#", "##") if prefix else ("%", "%%")):
                    cases.append((form, t, w, expected(items, w, form)))
    return cases, multi, e.queries, e.solver_s


def run_driver(driver, lines):
    p = subprocess.run([driver], input="\n".join(lines) + "\n", capture_output=True, text=True)
    if p.returncode != 0:
        raise RuntimeError("trim driver failed: " + p.stderr[-400:])
    return [json.loads(l) for l in p.stdout.splitlines() if l.strip()]


def hexs(s):
    return " ".join("%x" % ord(c) for c in s)


def main():
    ap = argparse.ArgumentParser()
    ap.add_argument("--driver", required=True)
    ap.add_argument("--tier", default="quick")
    ap.add_argument("--out", required=True)
    ap.add_argument("--jobs", type=int, default=8)
    a = ap.parse_args()
    t0 = time.time()
    fam = family(a.tier)
    n_multi, n_other = (3, 2) if a.tier == "quick" else (4, 3)
    chunks = [fam[i::a.jobs] for i in range(a.jobs)]
    import multiprocessing as mp
    with mp.Pool(a.jobs) as pool:
        parts = pool.map(gen_cases, [(c, n_multi, n_other) for c in chunks])
    cases, multi, queries, solver_s = [], 0, 0, 0.0
    for cs, mu, q, ss in parts:
        cases += cs
        multi += mu
        queries += q
        solver_s += ss
    lines = ["%s %s | %s" % (form, tok_line(t), hexs(w)) for form, t, w, _ in cases]
    res = run_driver(a.driver, lines)
    if len(res) != len(cases):
        print("driver answered %d of %d lines" % (len(res), len(cases)))
        sys.exit(2)
    bad, errors = [], 0
    for (form, t, w, exp), r in zip(cases, res):
        if not r.get("ok"):
            errors += 1
            bad.append({"form": form, "pattern": show(t), "tokens": tok_line(t), "string": w, "expected": exp,
                        "real": None, "note": r.get("error")})
            continue
        real = "".join(chr(c) for c in r["value"])
        if real != exp:
            bad.append({"form": form, "pattern": show(t), "tokens": tok_line(t), "string": w, "expected": exp, "real": real,
                        "note": "${x%s%s} with x=%r: real expansion gives %r, POSIX says %r" % (form, show(t), w, real, exp)})
    # planted mutant: a deliberately wrong expectation (shortest and longest swapped) must disagree somewhere
    planted = 0
    for (form, t, w, exp), r in zip(cases, res):
        if r.get("ok"):
            swapped = {"#": "##", "##": "#", "%": "%%", "%%": "%"}[form]
            if expected(parse_spec(t), w, swapped) != "".join(chr(c) for c in r["value"]):
                planted += 1
    out = {
        "patterns": len(fam), "cases": len(cases), "cases_with_two_or_more_cuts": multi, "disagreements": bad[:50],
        "n_disagreements": len(bad), "driver_errors": errors, "queries": queries, "solver_s": round(solver_s, 2),
        "planted_mutant_detected": planted > 0, "wall_s": round(time.time() - t0, 1),
        "samples": [{"form": f, "pattern": show(t), "string": w, "expected": x} for f, t, w, x in cases[:: max(1, len(cases) // 12)]][:12],
    }
    with open(a.out, "w") as f:
        json.dump(out, f, indent=1)
    print("trim: %d patterns, %d cases (%d strings with >= 2 matching cuts), %d z3 queries in %.1fs, %d disagreements, planted mutant %s"
          % (len(fam), len(cases), multi, queries, solver_s, len(bad), "detected" if planted else "NOT detected"))


if __name__ == "__main__":
    main()
