"""E2 — z3 regular-language equivalence for the yash-fnmatch pattern compiler.

For each pattern of a bounded-exhaustive family the REAL translator (run natively by
harness/ext/fnm_driver against the snapshot) emits regex text; the text is parsed by
regex-syntax (the parser the regex crate itself uses, same builder flags) into HIR;
HIR is encoded as a z3 regular expression R_impl. Independently, R_spec is built from
the POSIX reading of the pattern (XCU 2.13, XBD 9.3.5) by the reference parser below,
which never looks at the emitted regex. The query  exists s. (s in R_impl) xor (s in R_spec)
is decided by z3's sequence theory: unsat = equal languages for strings of every length.

This module is imported by worker processes (python3-vt, z3 5.x).
"""
import json
import sys

MAXC = 0x2FFFF  # z3's character domain (unicode encoding)

CLASSES = {
    "alpha": [(65, 90), (97, 122)],
    "digit": [(48, 57)],
    "alnum": [(48, 57), (65, 90), (97, 122)],
    "upper": [(65, 90)],
    "lower": [(97, 122)],
    "space": [(9, 13), (32, 32)],
    "blank": [(9, 9), (32, 32)],
    "punct": [(33, 47), (58, 64), (91, 96), (123, 126)],
    "print": [(32, 126)],
    "graph": [(33, 126)],
    "cntrl": [(0, 31), (127, 127)],
    "xdigit": [(48, 57), (65, 70), (97, 102)],
}


class Unspecified(Exception):
    """POSIX leaves the pattern's meaning unspecified/undefined: not checked."""


# ---------------------------------------------------------------------------
# Reference reading of a pattern (tokens = list of (quoted: bool, ch: str))
# ---------------------------------------------------------------------------

def parse_bracket(t, i, caret_literal):
    """t[i-1] was an unquoted '['. Returns (set_item, next_index) or None if there
    is no closing bracket (then '[' is an ordinary character)."""
    n = len(t)
    neg = False
    members = []  # ('c', ch, quoted) | ('coll', s) | ('equiv', s) | ('class', s)
    if i < n and t[i] == (False, "!"):
        neg = True
        i += 1
    elif i < n and t[i] == (False, "^") and not caret_literal:
        neg = True
        i += 1
    first = True
    while True:
        if i >= n:
            return None
        q, c = t[i]
        if not q and c == "]" and not first:
            i += 1
            break
        if not q and c == "[" and i + 1 < n and t[i + 1] in ((False, "."), (False, "="), (False, ":")):
            d = t[i + 1][1]
            j = i + 2
            end = None
            while j + 1 < n:
                if t[j] == (False, d) and t[j + 1] == (False, "]") and j >= i + 2:
                    end = j
                    break
                j += 1
            if end is None:
                raise Unspecified("unterminated [%s inside bracket expression" % d)
            val = "".join(ch for _, ch in t[i + 2:end])
            if val == "":
                raise Unspecified("empty [%s%s]" % (d, d))
            kind = {".": "coll", "=": "equiv", ":": "class"}[d]
            if kind == "class" and val not in CLASSES:
                raise Unspecified("undefined character class name")
            members.append((kind, val))
            i = end + 2
        else:
            members.append(("c", c, q))
            i += 1
        first = False
    # ranges, left to right
    singles = []   # list of (lo, hi) code point ranges
    strings = []   # multi-character collating elements
    k = 0
    m = members
    while k < len(m):
        # an unquoted '-' that is neither the first nor the last member is the range operator
        if k + 2 < len(m) and m[k + 1] == ("c", "-", False):
            a, b = m[k], m[k + 2]
            for e in (a, b):
                if e[0] in ("class", "equiv"):
                    raise Unspecified("class or equivalence class as range endpoint")
                if e[0] == "coll" and len(e[1]) != 1:
                    raise Unspecified("multi-character collating element as range endpoint")
            lo = ord(a[1])
            hi = ord(b[1])
            if lo > hi:
                raise Unspecified("range with start > end")
            singles.append((lo, hi))
            k += 3
            if k + 1 < len(m) and m[k] == ("c", "-", False):
                raise Unspecified("adjacent ranges sharing an endpoint ([a-b-c])")
            continue
        e = m[k]
        if e[0] == "c":
            singles.append((ord(e[1]), ord(e[1])))
        elif e[0] in ("coll", "equiv"):
            if len(e[1]) == 1:
                singles.append((ord(e[1]), ord(e[1])))
            else:
                strings.append(e[1])
        else:
            singles.extend(CLASSES[e[1]])
        k += 1
    return ("set", neg, tuple(singles), tuple(strings)), i


def parse_spec(t, caret_literal=False):
    """POSIX reading of a token list -> list of items:
    ('char', c) | ('any',) | ('star',) | ('set', neg, ranges, strings)."""
    items = []
    i = 0
    n = len(t)
    while i < n:
        q, c = t[i]
        if not q and c == "?":
            items.append(("any",))
            i += 1
        elif not q and c == "*":
            items.append(("star",))
            i += 1
        elif not q and c == "[":
            r = parse_bracket(t, i + 1, caret_literal)
            if r is None:
                items.append(("char", "["))
                i += 1
            else:
                items.append(r[0])
                i = r[1]
        else:
            items.append(("char", c))
            i += 1
    return items


def has_caret_bracket(t):
    return any(t[i] == (False, "[") and i + 1 < len(t) and t[i + 1] == (False, "^") for i in range(len(t)))


# -- reference matcher on concrete strings (used for replay only) --------------

def item_match_lens(it, s, pos):
    """Lengths that item `it` can consume at s[pos:]."""
    if it[0] == "char":
        return [1] if s[pos:pos + 1] == it[1] else []
    if it[0] == "any":
        return [1] if pos < len(s) else []
    if it[0] == "star":
        return list(range(0, len(s) - pos + 1))
    _, neg, ranges, strings = it
    out = []
    if pos < len(s):
        inset = any(lo <= ord(s[pos]) <= hi for lo, hi in ranges)
        if inset != neg:
            out.append(1)
    if not neg:
        for w in strings:
            if s.startswith(w, pos):
                out.append(len(w))
    return out


def ref_match_from(items, s, pos, k, must_end):
    if k == len(items):
        return pos == len(s) if must_end else True
    for ln in item_match_lens(items[k], s, pos):
        if ref_match_from(items, s, pos + ln, k + 1, must_end):
            return True
    return False


def starts_with_literal_dot(items):
    return bool(items) and items[0] == ("char", ".")


def ref_is_match(items, s, ab, ae, lp=False):
    starts = [0] if ab else list(range(len(s) + 1))
    if lp and s.startswith(".") and not starts_with_literal_dot(items):
        starts = [p for p in starts if p >= 1]
    return any(ref_match_from(items, s, p, 0, ae) for p in starts)


# ---------------------------------------------------------------------------
# z3 encodings
# ---------------------------------------------------------------------------

class Enc:
    def __init__(self):
        import z3
        self.z3 = z3
        self.resort = z3.ReSort(z3.StringSort())
        self.full = z3.Full(self.resort)
        self.allchar = z3.AllChar(self.resort)
        self.empty = z3.Empty(self.resort)
        self.eps = z3.Re(z3.StringVal(""))
        self.s = z3.String("s")
        self.solver = z3.Solver()
        self.solver.set("timeout", 20000)
        self.queries = 0
        self.solver_s = 0.0

    def lit(self, text):
        return self.z3.Re(self.z3.StringVal(text))

    def ranges(self, rs):
        """Union of code point ranges (clipped to z3's domain, surrogate gap merged)."""
        z3 = self.z3
        norm = []
        for lo, hi in sorted(rs):
            if lo > MAXC:
                continue
            hi = min(hi, MAXC)
            if norm and (lo <= norm[-1][1] + 1 or (norm[-1][1] == 0xD7FF and lo == 0xE000)):
                norm[-1][1] = max(norm[-1][1], hi)
            else:
                norm.append([lo, hi])
        if not norm:
            return self.empty
        if len(norm) == 1 and norm[0] == [0, MAXC]:
            return self.allchar
        parts = []
        for lo, hi in norm:
            if lo == hi:
                parts.append(self.lit(chr(lo)))
            else:
                parts.append(z3.Range(chr(lo), chr(hi)))
        return parts[0] if len(parts) == 1 else z3.Union(*parts)

    def cat(self, parts):
        parts = [p for p in parts]
        if not parts:
            return self.eps
        return parts[0] if len(parts) == 1 else self.z3.Concat(*parts)

    def union(self, parts):
        if not parts:
            return self.empty
        return parts[0] if len(parts) == 1 else self.z3.Union(*parts)

    # -- spec side --
    def spec_item(self, it):
        z3 = self.z3
        if it[0] == "char":
            return self.lit(it[1])
        if it[0] == "any":
            return self.allchar
        if it[0] == "star":
            return self.full
        _, neg, ranges, strings = it
        base = self.ranges(list(ranges))
        if neg:
            return z3.Intersect(self.allchar, z3.Complement(base))
        return self.union([base] + [self.lit(w) for w in strings])

    def spec_body(self, items):
        return self.cat([self.spec_item(it) for it in items])

    def wrap(self, body, ab, ae):
        parts = []
        if not ab:
            parts.append(self.full)
        parts.append(body)
        if not ae:
            parts.append(self.full)
        return self.cat(parts)

    def spec_lang(self, items, ab, ae, lp=False):
        z3 = self.z3
        body = self.spec_body(items)
        normal = self.wrap(body, ab, ae)
        if not lp or starts_with_literal_dot(items):
            return normal
        dotfirst = z3.Concat(self.lit("."), self.full)
        if ab:
            special = self.empty
        else:
            special = self.cat([self.lit("."), self.full, body] + ([] if ae else [self.full]))
        return z3.Union(z3.Intersect(normal, z3.Complement(dotfirst)), special)

    # -- impl side --
    def hir(self, h):
        z3 = self.z3
        k = h["k"]
        if k == "empty":
            return self.eps
        if k == "lit":
            return self.lit("".join(chr(c) for c in h["s"]))
        if k == "class":
            if h.get("bytes"):
                raise ValueError("byte class")
            return self.ranges([tuple(r) for r in h["r"]])
        if k == "rep":
            sub = self.hir(h["sub"])
            mn, mx = h["min"], h["max"]
            if mn == 0 and mx == -1:
                return z3.Star(sub)
            if mn == 1 and mx == -1:
                return z3.Plus(sub)
            if mn == 0 and mx == 1:
                return z3.Option(sub)
            if mx == -1:
                return z3.Concat(z3.Loop(sub, mn, mn), z3.Star(sub))
            return z3.Loop(sub, mn, mx)
        if k == "cap":
            return self.hir(h["sub"])
        if k == "cat":
            return self.cat([self.hir(x) for x in h["subs"]])
        if k == "alt":
            return self.union([self.hir(x) for x in h["subs"]])
        raise ValueError("look-around inside the expression")

    def impl_lang(self, rec, ab, ae, lp=False):
        """Language accepted by Pattern::is_match given what the real translator
        produced (rec = driver output). Models lib.rs::is_match: Body::Literal ->
        contains/starts_with/ends_with/==; Body::Regex -> is_match_at(text, 0|1)."""
        z3 = self.z3
        if rec.get("literal") is not None:
            body = self.lit("".join(chr(c) for c in rec["literal"]))
            return self.wrap(body, ab, ae)
        h = rec["hir"]
        subs = h["subs"] if h["k"] == "cat" else [h]
        a0 = a1 = False
        subs = list(subs)
        while subs and subs[0]["k"] == "look" and subs[0]["v"] == "Start":
            a0 = True
            subs.pop(0)
        while subs and subs[-1]["k"] == "look" and subs[-1]["v"] == "End":
            a1 = True
            subs.pop()
        body = self.cat([self.hir(x) for x in subs])
        normal = self.wrap(body, a0, a1)
        if not lp:
            return normal
        lit = rec.get("ast_first_dot", False)
        if lit:
            return normal
        dotfirst = z3.Concat(self.lit("."), self.full)
        if a0:
            special = self.empty
        else:
            special = self.cat([self.lit("."), self.full, body] + ([] if a1 else [self.full]))
        return z3.Union(z3.Intersect(normal, z3.Complement(dotfirst)), special)

    # -- queries --
    def differ(self, ra, rb):
        """None if L(ra) == L(rb) (unsat), else a witness string; 'unknown' on timeout."""
        import time
        z3 = self.z3
        t0 = time.time()
        self.solver.push()
        self.solver.add(z3.InRe(self.s, ra) != z3.InRe(self.s, rb))
        r = self.solver.check()
        w = None
        if r == z3.sat:
            w = self.solver.model().eval(self.s, model_completion=True).as_string()
        self.solver.pop()
        self.queries += 1
        self.solver_s += time.time() - t0
        if r == z3.unsat:
            return None
        if r == z3.sat:
            return ("sat", unescape(w))
        return ("unknown", None)

    def member_with(self, r, positive, extra):
        """A string in / not in L(r) that also lies in the probe language `extra`, or None."""
        z3 = self.z3
        return self.member(z3.Intersect(r, extra) if positive else z3.Union(r, z3.Complement(extra)), positive)

    def member(self, r, positive=True):
        """A string in (positive) / not in (negative) L(r), or None."""
        import time
        z3 = self.z3
        t0 = time.time()
        self.solver.push()
        c = z3.InRe(self.s, r)
        self.solver.add(c if positive else z3.Not(c))
        res = self.solver.check()
        w = None
        if res == z3.sat:
            w = unescape(self.solver.model().eval(self.s, model_completion=True).as_string())
        self.solver.pop()
        self.queries += 1
        self.solver_s += time.time() - t0
        return w


def unescape(s):
    """z3 prints non-printable characters as \\u{XXXX}."""
    import re
    return re.sub(r"\\u\{([0-9a-fA-F]+)\}", lambda m: chr(int(m.group(1), 16)), s)


def valid_scalar_string(s):
    return all(not (0xD800 <= ord(c) <= 0xDFFF) and ord(c) <= 0x10FFFF for c in s)


# ---------------------------------------------------------------------------
# token helpers
# ---------------------------------------------------------------------------

def tok_line(t):
    return " ".join(("L" if q else "N") + "%x" % ord(c) for q, c in t)


def show(t):
    """Human-readable pattern: quoted characters are written with a backslash."""
    return "".join(("\\" + c if q else c) for q, c in t)


def N(s):
    return [(False, c) for c in s]


def L(s):
    return [(True, c) for c in s]
