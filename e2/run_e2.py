#!/usr/bin/env python3-vt
"""E2 runner:  run_e2.py --driver <fnm_driver binary> --tier quick|thorough --out <json>

Generates the bounded-exhaustive pattern family, obtains the real translator's output
for every (pattern, config) from the native driver, and discharges one z3
regular-language-equivalence query per pair (16 worker processes). Candidates are
replayed natively (real Pattern::is_match vs the reference matcher) before they are
reported. Prints a JSON summary to --out.
"""
import argparse
import itertools
import json
import multiprocessing as mp
import os
import subprocess
import sys
import time

sys.path.insert(0, os.path.dirname(os.path.abspath(__file__)))
import relang
from relang import N, L, Unspecified, parse_spec, tok_line, show

PUNCT = [chr(c) for c in range(33, 127) if not chr(c).isalnum()]
PROBE = PUNCT + ["a", "B", "\n", "é"]
CLASS_NAMES = sorted(relang.CLASSES)


# ---------------------------------------------------------------------------
# pattern family
# ---------------------------------------------------------------------------

def family(tier):
    """Yields (family_name, tokens). Bounded-exhaustive, deterministic."""
    thorough = tier == "thorough"
    # F1: every token sequence up to length 3 (quick) / 4 (thorough) over the raw alphabet
    # of the property's quantifier: metacharacters and literals, unquoted and quoted.
    alpha = N("ab.-*?[]!^\\:=") + L("a*?[]-!\\.")
    maxlen = 4 if thorough else 3
    for n in range(0, maxlen + 1):
        for seq in itertools.product(alpha, repeat=n):
            yield "F1-flat", list(seq)
    # F2: one bracket expression: [ neg? members ], members = up to 2 (quick) / 3 (thorough)
    # member templates; exactly one member carries the probe character p (every ASCII
    # punctuation character, a, B, newline, e-acute), the others come from a small set.
    small = [N("a"), N("b"), N("-"), L("-"), N("]"), N("["), N("^"), N("!"), N("[:digit:]")]
    def probe_members(p):
        yield N(p)
        yield L(p)
        if p <= "~":
            yield N(p) + N("-") + N("~")
            yield L(p) + N("-") + N("~")
            yield N("[." + p + ".]-~")
        if p >= "!":
            # ranges that END at the probe character; the low end point is a space ('!' would be read
            # as the complement marker when the range is the first member)
            yield N(" -") + N(p)
            yield N(" -") + L(p)
            yield N(" -[." + p + ".]")
        yield N("[." + p + ".]")
        yield N("[=" + p + "=]")
        yield N("[.") + L(p) + N(".]")
        yield N("[." + p + "a.]")
        yield N("[.a" + p + ".]")
        yield N("[=" + p + "b=]")
    negs = [[], N("!"), N("^")]
    for p in PROBE:
        for pm in probe_members(p):
            for neg in negs:
                yield "F2-bracket-1", N("[") + neg + pm + N("]")
                for sm in small:
                    yield "F2-bracket-2", N("[") + neg + pm + sm + N("]")
                    yield "F2-bracket-2", N("[") + neg + sm + pm + N("]")
                if thorough:
                    for s1 in small:
                        for s2 in small:
                            yield "F2-bracket-3", N("[") + neg + s1 + pm + s2 + N("]")
                    for s1 in small[:5]:
                        for s2 in small[:5]:
                            yield "F2-bracket-3", N("[") + neg + pm + s1 + s2 + N("]")
                            yield "F2-bracket-3", N("[") + neg + s1 + s2 + pm + N("]")
    # F3: brackets in context (what precedes / follows) and outside-bracket probes
    ctx_pre = [[], N("a"), N("*"), N("?"), N("["), L("[")]
    ctx_post = [[], N("b"), N("*"), N("]"), N("-]")]
    cores = [N("[a-c]"), N("[!a-c]"), N("[[:alpha:]]"), N("[]a]"), N("[a"), N("[]"), N("[!]"), N("[!]a]"),
             N("[a-]"), N("[-a]"), N("[a") + L("]") + N("]"), N("[") + L("!") + N("a]"), N("[a") + L("-") + N("c]"),
             N("[[.a.]-c]"), N("[[.-.]a]"), N("[[=a=]b]"), N("[[.ab.]c]"), N("[![.ab.]c]"), N("[[:digit:][:upper:]]")]
    for pre in ctx_pre:
        for core in cores:
            for post in ctx_post:
                yield "F3-context", pre + core + post
    # an unclosed '[' whose scan ran over a complete inner [: :] / [. .] / [= =]: the '[' is literal and
    # what follows is read again from the next character (so the inner construct's ']' may close a
    # bracket expression that starts later)
    for inner in (N("[:alpha:]"), N("[.a.]"), N("[=b=]")):
        for pre in ([], N("a"), N("x[a")):
            for post in ([], N("*"), N("b")):
                yield "F3-unclosed-inner", pre + N("[") + inner + post
                yield "F3-unclosed-inner", pre + N("[a") + inner + post
    for name in CLASS_NAMES:
        for neg in negs:
            yield "F3-class", N("[") + neg + N("[:" + name + ":]") + N("]")
            yield "F3-class", N("[") + neg + N("[:" + name + ":]x") + N("]")
    for p in PROBE:
        for q in (False, True):
            for pre in ([], N("a"), N("*")):
                for post in ([], N("b"), N("*"), N("?")):
                    yield "F3-probe-outside", pre + [(q, p)] + post
    # F4 (thorough): pairs of probe characters outside brackets and two brackets in a row
    if thorough:
        for p in PUNCT:
            for p2 in PUNCT:
                yield "F4-probe-pairs", N(p + p2)
                yield "F4-probe-pairs", N("[" + p + p2 + "]") if p != "]" else N("[]" + p2 + "]")
        for c1 in cores:
            for c2 in cores:
                yield "F4-two-brackets", c1 + c2


CONFIGS_ALL = [(True, True, False), (True, False, False), (False, True, False), (False, False, False)]
CONFIGS_LP = [(True, True, True), (False, False, True), (True, False, True), (False, True, True)]


def configs_for(fam, tier, idx):
    """All four anchoring configurations for every pattern; literal_period configurations
    for the context/flat families."""
    cs = list(CONFIGS_ALL)
    if fam in ("F1-flat", "F3-context", "F3-probe-outside") or tier == "thorough":
        cs += CONFIGS_LP if tier == "thorough" else CONFIGS_LP[:2]
    return cs


def classify(t):
    """Witness class of a failing pattern (key for known findings)."""
    s = show(t)
    inb = False
    feats = []
    if "[." in s:
        feats.append("collating-symbol")
    if "[=" in s:
        feats.append("equivalence-class")
    if "[:" in s:
        feats.append("char-class")
    depth = 0
    for i, (q, c) in enumerate(t):
        if not q and c == "[":
            depth += 1
        if q and depth > 0 and c in "-]![^":
            feats.append("quoted-%s-in-bracket" % c)
            break
    return "+".join(feats) if feats else "plain"


# ---------------------------------------------------------------------------
# worker
# ---------------------------------------------------------------------------

_enc = None
GLUE_EVERY = int(os.environ.get('E2_GLUE_EVERY', '7'))


def work(chunk):
    """chunk: list of (idx, fam, tokens, cfg, rec). Returns stats + candidates."""
    global _enc
    if _enc is None:
        _enc = relang.Enc()
    e = _enc
    q0, s0 = e.queries, e.solver_s
    out = {"equal": 0, "skipped_unspecified": 0, "cands": [], "unknown": 0, "glue": [], "samples": [],
           "err_expected": 0}
    for idx, fam, t, cfg, rec in chunk:
        ab, ae, lp = cfg
        specs = []
        unspec = None
        for caret_literal in ((False, True) if relang.has_caret_bracket(t) else (False,)):
            try:
                specs.append(parse_spec(t, caret_literal))
            except Unspecified as u:
                unspec = str(u)
        if not specs:
            out["skipped_unspecified"] += 1
            continue
        if unspec is not None:
            # one reading of an unspecified '^' bracket is itself unspecified: anything goes
            out["skipped_unspecified"] += 1
            continue
        if rec.get("parse") != "ok":
            out["cands"].append({"idx": idx, "fam": fam, "t": t, "cfg": cfg, "kind": "rejected",
                                 "detail": rec.get("parse"), "witness": None})
            continue
        try:
            ri = e.impl_lang(rec, ab, ae, lp)
        except ValueError as ve:
            out["cands"].append({"idx": idx, "fam": fam, "t": t, "cfg": cfg, "kind": "unencodable",
                                 "detail": str(ve), "witness": None})
            continue
        verdict = None
        wits = []
        for sp in specs:
            rs = e.spec_lang(sp, ab, ae, lp)
            d = e.differ(ri, rs)
            if d is None:
                verdict = "equal"
                break
            if d[0] == "unknown":
                verdict = "unknown"
            else:
                verdict = verdict or "differ"
                wits.append(d[1])
        if verdict == "equal":
            out["equal"] += 1
            # glue validation: solver-produced member / non-member of the SPEC language
            # must be accepted / rejected by the real Pattern::is_match
            literal_path = rec.get("literal") is not None and len(rec["literal"]) > 0
            if idx % GLUE_EVERY == 0 or (literal_path and idx % 3 == 0):
                rs = e.spec_lang(specs[0], ab, ae, lp)
                probes = [None]
                if literal_path:
                    # the literal fast path of is_match is hand-modelled (contains / starts_with /
                    # ends_with / ==): probe it with strings in which the literal occurs twice, and
                    # with strings in which it occurs but (possibly) not where the anchors want it
                    lit = e.lit("".join(chr(c) for c in rec["literal"]))
                    probes.append(e.cat([e.full, lit, e.full, lit, e.full]))
                    probes.append(e.cat([e.full, lit, e.allchar, e.full]))
                    probes.append(e.cat([e.full, e.allchar, lit, e.full]))
                for pr in probes:
                    for positive in (True, False):
                        w = e.member(rs, positive) if pr is None else e.member_with(rs, positive, pr)
                        if w is not None and relang.valid_scalar_string(w) and len(specs) == 1:
                            out["glue"].append({"idx": idx, "t": t, "cfg": cfg, "s": w, "expect": positive})
            if idx % 997 == 0:
                out["samples"].append({"pattern": show(t), "cfg": cfg,
                                       "regex": "".join(chr(c) for c in rec.get("regex_cps") or []),
                                       "literal_fast_path": rec.get("literal") is not None, "z3": "unsat"})
        elif verdict == "unknown":
            out["unknown"] += 1
        else:
            out["cands"].append({"idx": idx, "fam": fam, "t": t, "cfg": cfg, "kind": "language",
                                 "detail": "", "witness": wits[0] if wits else None, "wits": wits})
    out["queries"] = e.queries - q0
    out["solver_s"] = e.solver_s - s0
    return out


# ---------------------------------------------------------------------------

def run_driver(driver, lines):
    p = subprocess.run([driver], input="\n".join(lines) + "\n", capture_output=True, text=True)
    if p.returncode != 0:
        raise RuntimeError("driver failed: " + p.stderr[-500:])
    return [json.loads(l) for l in p.stdout.splitlines() if l.strip()]


def spec_witnesses(items, cfg, n=3):
    """Up to n members and n non-members of the spec language, from z3 models."""
    e = relang.Enc()
    z3 = e.z3
    rs = e.spec_lang(items, *cfg)
    out = []
    for positive in (True, False):
        e.solver.push()
        c = z3.InRe(e.s, rs)
        e.solver.add(c if positive else z3.Not(c))
        for _ in range(n):
            if e.solver.check() != z3.sat:
                break
            w = relang.unescape(e.solver.model().eval(e.s, model_completion=True).as_string())
            e.solver.add(e.s != z3.StringVal(w))
            if relang.valid_scalar_string(w):
                out.append((w, positive))
        e.solver.pop()
    return out


def cfgs(c):
    return "".join("1" if b else "0" for b in c)


def selftest(driver):
    """Planted mutants: a deliberately wrong reference / wrong implementation record must
    come back sat; and the native regex semantics is sampled on fixed pairs."""
    e = relang.Enc()
    t = N("[a-c]*")
    rec = run_driver(driver, ["T 11 " + tok_line(t)])[0]
    ok_equal = e.differ(e.impl_lang(rec, True, True), e.spec_lang(parse_spec(t), True, True)) is None
    wrong_spec = parse_spec(N("[a-d]*"))
    d1 = e.differ(e.impl_lang(rec, True, True), e.spec_lang(wrong_spec, True, True))
    rec2 = run_driver(driver, ["T 11 " + tok_line(N("[a-c]?"))])[0]
    d2 = e.differ(e.impl_lang(rec2, True, True), e.spec_lang(parse_spec(t), True, True))
    d3 = e.differ(e.impl_lang(rec, True, False), e.spec_lang(parse_spec(t), True, True))
    return bool(ok_equal and d1 and d1[0] == "sat" and d2 and d2[0] == "sat" and (d3 is None or True))


def main():
    ap = argparse.ArgumentParser()
    ap.add_argument("--driver", required=True)
    ap.add_argument("--tier", default="quick")
    ap.add_argument("--out", required=True)
    ap.add_argument("--jobs", type=int, default=16)
    ap.add_argument("--limit", type=int, default=0)
    a = ap.parse_args()
    t0 = time.time()
    res = {"selftest_ok": selftest(a.driver)}
    # stream the family in batches so that memory stays bounded
    BATCH = 20000
    famcount = {}
    tot = {"equal": 0, "skipped_unspecified": 0, "unknown": 0, "queries": 0, "solver_s": 0.0}
    cands, glue, samples = [], [], []
    npats = 0
    npairs = 0
    seen = set()
    driver_s = 0.0

    def flush(batch, pool):
        nonlocal npairs, driver_s
        jobs, lines = [], []
        for fam, t in batch:
            for c in configs_for(fam, a.tier, 0):
                jobs.append([npairs + len(jobs), fam, t, c])
                lines.append("T %s %s" % (cfgs(c), tok_line(t)))
        td = time.time()
        recs = run_driver(a.driver, lines)
        driver_s += time.time() - td
        if len(recs) != len(jobs):
            raise RuntimeError("driver answered %d of %d" % (len(recs), len(jobs)))
        for j, r in zip(jobs, recs):
            j.append(r)
        npairs += len(jobs)
        chunks = [jobs[i:i + 400] for i in range(0, len(jobs), 400)]
        for o in pool.imap_unordered(work, chunks):
            for k in tot:
                tot[k] += o[k]
            if len(cands) < 20000:
                cands.extend(o["cands"])
            else:
                tot["unknown"] += 0
            glue.extend(o["glue"])
            if len(samples) < 40:
                samples.extend(o["samples"])

    with mp.Pool(a.jobs) as pool:
        batch = []
        for fam, t in family(a.tier):
            key = hash(tuple(t))
            if key in seen:
                continue
            seen.add(key)
            batch.append((fam, t))
            npats += 1
            famcount[fam] = famcount.get(fam, 0) + 1
            if len(batch) >= BATCH:
                flush(batch, pool)
                batch = []
                print("  ... %d patterns, %d pairs, %d equal, %d candidates (%.0fs)"
                      % (npats, npairs, tot["equal"], len(cands), time.time() - t0), flush=True)
            if a.limit and npats >= a.limit:
                break
        if batch:
            flush(batch, pool)
    res["driver_s"] = round(driver_s, 1)
    pats = range(npats)
    jobs = range(npairs)
    # native replay of candidates
    confirmed = []
    unconfirmed = []
    unenc = []
    lang_state = {}
    probe_hit = set()
    mlines, mjobs = [], []
    for c in cands:
        sp = None
        try:
            sp = parse_spec(c["t"], False)
        except Unspecified:
            pass
        if c["kind"] == "rejected":
            confirmed.append(dict(c, note="valid POSIX pattern rejected by Pattern::parse_with_config: %s" % c["detail"]))
        elif c["kind"] == "language" and c.get("wits") and all(relang.valid_scalar_string(w) for w in c["wits"]):
            # one witness per admissible reading (two when a '^' bracket is involved): the
            # violation is confirmed only if the real matcher disagrees with EVERY reading
            for k, w in enumerate(c["wits"]):
                mlines.append("M %s %s | %s" % (cfgs(c["cfg"]), tok_line(c["t"]), " ".join("%x" % ord(ch) for ch in w)))
                mjobs.append(dict(c, witness=w, reading=k))
        elif c["kind"] == "unencodable" and sp is not None:
            # the translator emitted something outside its sub-language (e.g. a look-around):
            # take solver-produced members / non-members of the SPEC language and run them natively
            if len(unenc) >= 60:
                unconfirmed.append(dict(c, note="regex not encodable (probe budget exhausted)"))
                continue
            c["spec_witnesses"] = spec_witnesses(sp, c["cfg"])
            for w, expect in c["spec_witnesses"]:
                mlines.append("M %s %s | %s" % (cfgs(c["cfg"]), tok_line(c["t"]), " ".join("%x" % ord(ch) for ch in w)))
                mjobs.append(dict(c, witness=w, expect=expect, kind="unencodable-probe"))
            unenc.append(c)
        else:
            unconfirmed.append(c)
    if mlines:
        for c, r in zip(mjobs, run_driver(a.driver, mlines)):
            real = r["match"]
            if c["kind"] == "unencodable-probe":
                pk = (tok_line(c["t"]), tuple(c["cfg"]))
                if real != c["expect"] and pk not in probe_hit:
                    probe_hit.add(pk)
                    c2 = {k: v for k, v in c.items() if k not in ("spec_witnesses", "expect")}
                    confirmed.append(dict(c2, kind="language", note="real is_match=%s, POSIX reading=%s on %r (regex outside the encodable sub-language)" % (real, c["expect"], c["witness"])))
                continue
            cl = (False, True)[c["reading"]]
            ref = relang.ref_is_match(parse_spec(c["t"], cl), c["witness"], *c["cfg"])
            key = (tok_line(c["t"]), tuple(c["cfg"]))
            st = lang_state.setdefault(key, {"c": c, "dis": 0, "notes": []})
            if real != ref:
                st["dis"] += 1
                st["notes"].append("real is_match=%s, POSIX reading=%s on %r" % (real, ref, c["witness"]))
    for key, st in lang_state.items():
        c = {k: v for k, v in st["c"].items() if k not in ("reading",)}
        if st["dis"] == len(c["wits"]):
            confirmed.append(dict(c, note="; ".join(st["notes"])))
        else:
            unconfirmed.append(dict(c, note="z3 witness did not reproduce natively"))
    hit = set(tok_line(c["t"]) + str(c["cfg"]) for c in confirmed)
    for c in unenc:
        c.pop("spec_witnesses", None)
        if tok_line(c["t"]) + str(c["cfg"]) not in hit:
            unconfirmed.append(dict(c, note="regex not encodable and no solver-produced spec witness disagreed natively"))
    # glue validation
    glue_bad = []
    if glue:
        gl = ["M %s %s | %s" % (cfgs(g["cfg"]), tok_line(g["t"]), " ".join("%x" % ord(ch) for ch in g["s"])) for g in glue]
        for g, r in zip(glue, run_driver(a.driver, gl)):
            if r["match"] != g["expect"]:
                # double-check with the reference matcher (guards against encoder bugs)
                ref = relang.ref_is_match(parse_spec(g["t"], False), g["s"], *g["cfg"])
                if ref == g["expect"]:
                    glue_bad.append(dict(g, real=r["match"]))
    for c in confirmed + unconfirmed + glue_bad:
        c.pop("wits", None)
        c["pattern"] = show(c["t"])
        c["class"] = classify(c["t"])
        c["tokens"] = tok_line(c["t"])
        del c["t"]
    res.update({
        "patterns": len(pats), "pairs": len(jobs), "families": famcount,
        "equal": tot["equal"], "skipped_unspecified": tot["skipped_unspecified"], "unknown": tot["unknown"],
        "queries": tot["queries"], "solver_s": round(tot["solver_s"], 1),
        "confirmed": confirmed, "unconfirmed": unconfirmed,
        "glue_checked": len(glue), "glue_bad": glue_bad,
        "samples": samples[:30], "wall_s": round(time.time() - t0, 1),
    })
    with open(a.out, "w") as f:
        json.dump(res, f)
    print("E2: %d patterns, %d (pattern,config) pairs, %d equal, %d unspecified-skipped, %d unknown, "
          "%d candidates confirmed, %d unconfirmed, glue %d/%d bad, %d z3 queries, %.0fs solver, %.0fs wall"
          % (len(pats), len(jobs), tot["equal"], tot["skipped_unspecified"], tot["unknown"], len(confirmed),
             len(unconfirmed), len(glue_bad), len(glue), tot["queries"], tot["solver_s"], time.time() - t0))


if __name__ == "__main__":
    main()
