// C14 — the write(2) loop directly above the pipe buffer: `OpenFileDescription::poll_write_full`
// (injected under yash-env/src/system/virtual/io.rs; T6 + T10 as for c14_fifo.rs).
//
// Pre-state: a FIFO holding L bytes (arm-concrete) with a symbolic number of readers, an open file
// description on it (blocking or non-blocking: symbolic), a request of n bytes (arm-concrete) of
// which w0 were already transferred by earlier polls (symbolic, 0..=n). One poll. Post-conditions:
//  * the running total only grows, never beyond n, and grows by exactly the number of bytes the
//    pipe accepted (its length grows by the same amount): no byte is counted twice or dropped
//    between polls;
//  * Ready(Ok(t)) reports the running total; a blocking descriptor is Ready only when everything
//    has been transferred (t == n) or after an error that followed a partial transfer;
//  * Pending only for a blocking descriptor whose rest does not fit (after filling the free room
//    when the rest is larger than PIPE_BUF; without accepting anything when it is atomic);
//  * no reader: EPIPE if nothing was transferred yet, otherwise the partial count;
//  * a non-blocking descriptor never returns Pending: EAGAIN when nothing fits, else one write.
// One poll from every state covers resumption after any number of earlier polls.

use super::*;
use crate::system::r#virtual::{FileBody, Inode, PIPE_BUF, PIPE_SIZE};
use std::collections::VecDeque;

fn fifo_inode(len: usize, readers: usize) -> Rc<RefCell<Inode>> {
    let mut content = VecDeque::with_capacity(PIPE_SIZE);
    let mut i = 0;
    while i < len {
        content.push_back(kani::any());
        i += 1;
    }
    Rc::new(RefCell::new(Inode {
        body: FileBody::Fifo {
            content,
            readers,
            writers: 1,
            pending_open_wakers: Default::default(),
            pending_read_wakers: Default::default(),
            pending_write_wakers: Default::default(),
        },
        permissions: Default::default(),
    }))
}

fn pipe_len(inode: &Rc<RefCell<Inode>>) -> usize {
    match &inode.borrow().body {
        FileBody::Fifo { content, .. } => content.len(),
        _ => panic!("C14 still a FIFO"),
    }
}

fn step_write_full(len: usize, n: usize) {
    let data: [u8; 12] = kani::any();
    let readers: usize = kani::any();
    kani::assume(readers <= 1);
    let nonblocking: bool = kani::any();
    let w0: usize = kani::any();
    kani::assume(w0 <= n);
    let inode = fifo_inode(len, readers);
    let keep = Rc::clone(&inode);
    let mut ofd = OpenFileDescription { inode, offset: 0, is_readable: false, is_writable: true, is_appending: false, is_nonblocking: nonblocking };
    let mut written = w0;
    let r = ofd.poll_write_full(&data[..n], &mut written, Weak::new);
    let after = pipe_len(&keep);
    assert!(written >= w0 && written <= n, "C14 the running total only grows and never exceeds the request");
    assert!(after == len + (written - w0), "C14 the total grows by exactly the bytes the pipe accepted");
    assert!(after <= PIPE_SIZE, "C14 the pipe never holds more than PIPE_SIZE");
    let rest = n - w0;
    let room = PIPE_SIZE - len;
    if rest == 0 {
        assert!(matches!(r, Poll::Ready(Ok(t)) if t == n) && written == w0, "C14 nothing left to write: the total is reported");
    } else if readers == 0 {
        if w0 > 0 {
            assert!(matches!(r, Poll::Ready(Ok(t)) if t == w0), "C14 an error after a partial transfer reports the partial count");
        } else {
            assert!(matches!(r, Poll::Ready(Err(Errno::EPIPE))), "C14 writing to a pipe without readers fails with EPIPE");
        }
        assert!(written == w0, "C14 nothing is accepted without a reader");
    } else if rest <= room {
        assert!(matches!(r, Poll::Ready(Ok(t)) if t == n) && written == n, "C14 a rest that fits completes the write");
    } else if nonblocking {
        if room == 0 || rest <= PIPE_BUF {
            // nothing fits (or the atomic rest does not fit): EAGAIN, unless an earlier poll already transferred something
            if w0 > 0 {
                assert!(matches!(r, Poll::Ready(Ok(t)) if t == w0), "C14 non-blocking: the partial count is reported");
            } else {
                assert!(matches!(r, Poll::Ready(Err(Errno::EAGAIN))), "C14 non-blocking write that cannot proceed fails with EAGAIN");
            }
            assert!(written == w0, "C14 non-blocking: nothing accepted");
        } else {
            assert!(matches!(r, Poll::Ready(Ok(t)) if t == w0 + room) && written == w0 + room, "C14 non-blocking: one partial write");
        }
    } else {
        // blocking descriptor, the rest does not fit
        assert!(matches!(r, Poll::Pending), "C14 a blocking write whose rest does not fit stays pending");
        if room == 0 || rest <= PIPE_BUF {
            assert!(written == w0, "C14 an atomic rest is not split");
        } else {
            // the free room was filled; the new rest is what blocks
            assert!(written == w0 + room, "C14 a large rest fills the free room before blocking");
        }
    }
    kani::cover!(matches!(r, Poll::Pending) && written > w0, "partial progress then pending");
    kani::cover!(matches!(r, Poll::Ready(Ok(_))), "completed");
    std::mem::forget(r);
    std::mem::forget(ofd);
    std::mem::forget(keep);
}

macro_rules! arm {
    ($name:ident, $len:expr, $n:expr) => {
        #[kani::proof] // unwinding bounds are passed per harness (write loop: 4 rounds; everything else: 13)
        fn $name() {
            step_write_full($len, $n);
            kani::cover!(true, "each: reached");
        }
    };
}

// arms appended by vlib/props/c14.py
