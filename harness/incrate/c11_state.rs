// C11 — per-signal inductive steps on yash_env::trap::state::GrandState (injected under
// trap/state.rs; T1b BTreeMap -> sorted association list, T7 Location -> unit stand-in).
//
// System stub: one disposition cell for the signal under test, records every
// set_disposition call; the call fails (symbolically, consistently for this signal) with
// an errno and then changes nothing.
//
// Invariant J: the disposition actually installed equals
//     max(internal_disposition, disposition implied by the current trap action)
// with Default < Ignore < Catch; a missing entry means "still the initial disposition".

use super::*;
use crate::verif_bt::Cmd;
use crate::signal;
use crate::system::r#virtual::*;
use crate::system::Signals;
use std::cell::Cell;
use std::future::Future;
use std::ops::RangeInclusive;
use std::pin::pin;
use std::task::{Context, Poll, Waker};

type Slot = Option<(Condition, GrandState)>;
use crate::verif_bt::Entry as SEntry;

fn get(slot: &Slot) -> Option<&GrandState> {
    match slot {
        Some((_, g)) => Some(g),
        None => None,
    }
}

pub(crate) struct Sys {
    pub disp: Cell<Disposition>,
    pub sets: Cell<u8>,
    pub fails: bool,
    pub sig: signal::Number,
    pub foreign: Cell<bool>,
}

impl Signals for Sys {
    const SIGABRT: signal::Number = SIGABRT;
    const SIGALRM: signal::Number = SIGALRM;
    const SIGBUS: signal::Number = SIGBUS;
    const SIGCHLD: signal::Number = SIGCHLD;
    const SIGCLD: Option<signal::Number> = None;
    const SIGCONT: signal::Number = SIGCONT;
    const SIGEMT: Option<signal::Number> = None;
    const SIGFPE: signal::Number = SIGFPE;
    const SIGHUP: signal::Number = SIGHUP;
    const SIGILL: signal::Number = SIGILL;
    const SIGINFO: Option<signal::Number> = None;
    const SIGINT: signal::Number = SIGINT;
    const SIGIO: Option<signal::Number> = None;
    const SIGIOT: signal::Number = SIGIOT;
    const SIGKILL: signal::Number = SIGKILL;
    const SIGLOST: Option<signal::Number> = None;
    const SIGPIPE: signal::Number = SIGPIPE;
    const SIGPOLL: Option<signal::Number> = None;
    const SIGPROF: signal::Number = SIGPROF;
    const SIGPWR: Option<signal::Number> = None;
    const SIGQUIT: signal::Number = SIGQUIT;
    const SIGSEGV: signal::Number = SIGSEGV;
    const SIGSTKFLT: Option<signal::Number> = None;
    const SIGSTOP: signal::Number = SIGSTOP;
    const SIGSYS: signal::Number = SIGSYS;
    const SIGTERM: signal::Number = SIGTERM;
    const SIGTHR: Option<signal::Number> = None;
    const SIGTRAP: signal::Number = SIGTRAP;
    const SIGTSTP: signal::Number = SIGTSTP;
    const SIGTTIN: signal::Number = SIGTTIN;
    const SIGTTOU: signal::Number = SIGTTOU;
    const SIGURG: signal::Number = SIGURG;
    const SIGUSR1: signal::Number = SIGUSR1;
    const SIGUSR2: signal::Number = SIGUSR2;
    const SIGVTALRM: signal::Number = SIGVTALRM;
    const SIGWINCH: signal::Number = SIGWINCH;
    const SIGXCPU: signal::Number = SIGXCPU;
    const SIGXFSZ: signal::Number = SIGXFSZ;
    fn sigrt_range(&self) -> Option<RangeInclusive<signal::Number>> {
        None
    }
}

impl SignalSystem for Sys {
    fn get_disposition(&self, signal: signal::Number) -> Result<Disposition, Errno> {
        if signal != self.sig {
            self.foreign.set(true);
        }
        if self.fails { Err(Errno::EINVAL) } else { Ok(self.disp.get()) }
    }
    fn set_disposition(
        &self,
        signal: signal::Number,
        disposition: Disposition,
    ) -> impl Future<Output = Result<Disposition, Errno>> + use<> {
        if signal != self.sig {
            self.foreign.set(true);
        }
        let r = if self.fails {
            Err(Errno::EINVAL)
        } else {
            self.sets.set(self.sets.get() + 1);
            Ok(self.disp.replace(disposition))
        };
        std::future::ready(r)
    }
}

pub(crate) fn now<F: Future>(f: F) -> F::Output {
    // The future is never dropped: once it has completed, its drop glue would still be explored
    // for every suspension state (CBMC cannot see that the generator is in its final state), and
    // those states own errors, fields and locations with recursive drop glue.
    let mut f = std::mem::ManuallyDrop::new(f);
    let mut f = unsafe { std::pin::Pin::new_unchecked(&mut *f) };
    let mut cx = std::task::Context::from_waker(std::task::Waker::noop());
    match f.as_mut().poll(&mut cx) {
        std::task::Poll::Ready(v) => v,
        std::task::Poll::Pending => panic!("stub system futures are always ready"),
    }
}

fn any_disp() -> Disposition {
    let k: u8 = kani::any();
    kani::assume(k < 3);
    match k {
        0 => Disposition::Default,
        1 => Disposition::Ignore,
        _ => Disposition::Catch,
    }
}

/// kind: 0 Default, 1 Ignore, 2 Command
fn action(kind: u8, cmd: &Cmd) -> Action {
    match kind {
        0 => Action::Default,
        1 => Action::Ignore,
        _ => Action::Command(cmd.clone()),
    }
}

fn origin(kind: u8) -> Origin {
    match kind {
        0 => Origin::Inherited,
        1 => Origin::Subshell,
        _ => Origin::User(Location::default()),
    }
}

fn setting(a: &Action) -> Disposition {
    // written out (not via the From impl under test)
    match a {
        Action::Default => Disposition::Default,
        Action::Ignore => Disposition::Ignore,
        Action::Command(_) => Disposition::Catch,
    }
}

fn rank(d: Disposition) -> u8 {
    match d {
        Disposition::Default => 0,
        Disposition::Ignore => 1,
        Disposition::Catch => 2,
    }
}

fn merged(internal: Disposition, a: &Action) -> Disposition {
    if rank(internal) >= rank(setting(a)) { internal } else { setting(a) }
}

fn j(g: &GrandState, sys: &Sys) -> bool {
    sys.disp.get() == merged(g.internal_disposition, &g.current_state.action)
}

fn the_signal() -> signal::Number {
    // Concrete: at this level the signal number is only handed through to the system; a
    // symbolic key makes CBMC explore the vacant AND the occupied arm of every map lookup
    // (it does not fold `k == k` on a symbolic enum), which ran it out of memory. The signal
    // classes that the trap code distinguishes (CHLD, INT/QUIT, stoppers, KILL/STOP) are
    // distinguished in TrapSet, see c11_trapset.rs.
    SIGUSR1
}

/// An arbitrary occupied pre-state (shape arm-concrete: ak = action kind, ok = origin kind,
/// has_parent) with symbolic flags and internal disposition, and a system satisfying J.
fn pre(ak: u8, ok: u8, has_parent: bool, cmd: &Cmd) -> (GrandState, Sys) {
    let g = GrandState {
        current_state: TrapState { action: action(ak, cmd), origin: origin(ok), pending: kani::any() },
        parent_state: if has_parent {
            Some(TrapState { action: Action::Command(cmd.clone()), origin: origin(2), pending: kani::any() })
        } else {
            None
        },
        internal_disposition: any_disp(),
    };
    let sys = Sys {
        disp: Cell::new(merged(g.internal_disposition, &g.current_state.action)),
        sets: Cell::new(0),
        // a record exists, so sigaction worked for this signal before: it does not fail now
        fails: false,
        sig: the_signal(),
        foreign: Cell::new(false),
    };
    (g, sys)
}

fn vacant_sys() -> Sys {
    Sys { disp: Cell::new(any_disp()), sets: Cell::new(0), fails: kani::any(), sig: the_signal(), foreign: Cell::new(false) }
}

// ---------------------------------------------------------------------------
// set_action on an occupied entry
// ---------------------------------------------------------------------------
fn step_set_action_occupied(ak: u8, ok: u8, nk: u8, cmd: &Cmd) {
    let (g, mut sys) = pre(ak, ok, kani::any(), cmd);
    // the `trap` built-in reports a system error and carries on: a later sigaction for the same signal may fail even
    // though an earlier one worked (EINVAL / EPERM from a changed environment). set_action must then leave the record
    // as it was (added after seed C11-r4-set-action-no-rollback, which the fixed `fails: false` of pre() had hidden)
    sys.fails = kani::any();
    let cond = Condition::Signal(sys.sig);
    let old_installed = sys.disp.get();
    let old_internal = g.internal_disposition;
    let old_pending = g.current_state.pending;
    let mut map: Slot = Some((cond, g));
    let over: bool = kani::any();
    let r = now(GrandState::set_action(&sys, SEntry::from_slot(&mut map, cond), action(nk, cmd), Location::default(), over));
    let g = get(&map).unwrap();
    assert!(!sys.foreign.get(), "C11 only the signal concerned is touched");
    assert!(j(g, &sys), "C11 installed disposition = max(internal, trap action) after set_action");
    assert!(g.internal_disposition == old_internal, "C11 set_action keeps the internal disposition");
    let initially_ignored = ak == 1 && ok == 0;
    if initially_ignored && !over {
        assert!(r == Err(SetActionError::InitiallyIgnored), "C11 signal ignored on entry cannot be trapped or reset");
        assert!(sys.sets.get() == 0 && sys.disp.get() == old_installed, "C11 refused set_action has no effect");
        assert!(setting(&g.current_state.action) == Disposition::Ignore && g.current_state.origin == Origin::Inherited,
            "C11 refused set_action keeps the record");
        assert!(g.current_state.pending == old_pending, "C11 refused set_action keeps the pending flag");
    } else {
        let want = merged(old_internal, &action(nk, cmd));
        if want == old_installed {
            assert!(r == Ok(()), "C11 set_action without a disposition change cannot fail");
            assert!(sys.sets.get() == 0, "C11 system not called when the effective disposition is unchanged");
        } else if sys.fails {
            assert!(matches!(r, Err(SetActionError::SystemError(_))), "C11 system error reported");
            assert!(rank(setting(&g.current_state.action)) == ak.min(2) && sys.disp.get() == old_installed,
                "C11 record and system still agree after a system error");
        } else {
            assert!(r == Ok(()), "C11 set_action succeeds");
            assert!(sys.sets.get() == 1, "C11 system called exactly once on change");
        }
        if r.is_ok() {
            assert!(rank(setting(&g.current_state.action)) == nk.min(2), "C11 new action recorded");
            assert!(matches!(g.current_state.origin, Origin::User(_)), "C11 origin recorded");
            assert!(!g.current_state.pending, "C11 new trap starts without a pending signal");
            assert!(sys.disp.get() == want, "C11 installed disposition after set_action");
        }
    }
    kani::cover!(r == Err(SetActionError::InitiallyIgnored), "InitiallyIgnored reachable");
    kani::cover!(r.is_ok() && sys.sets.get() == 1, "disposition change reachable");
    kani::cover!(true, "each: step completed");
    std::mem::forget(map);
}

// set_action on a vacant entry
fn step_set_action_vacant(nk: u8, cmd: &Cmd) {
    let sys = vacant_sys();
    let cond = Condition::Signal(sys.sig);
    let initial = sys.disp.get();
    let mut map: Slot = None;
    let over: bool = kani::any();
    let r = now(GrandState::set_action(&sys, SEntry::from_slot(&mut map, cond), action(nk, cmd), Location::default(), over));
    assert!(!sys.foreign.get(), "C11 only the signal concerned is touched");
    match get(&map) {
        Some(g) => assert!(j(g, &sys), "C11 installed disposition = max(internal, trap action) after first set_action"),
        None => assert!(sys.disp.get() == initial, "C11 no record => disposition still the initial one"),
    }
    if sys.fails {
        assert!(matches!(r, Err(SetActionError::SystemError(_))), "C11 system error reported");
        assert!(get(&map).is_none() && sys.disp.get() == initial, "C11 failed first set_action leaves nothing behind");
    } else if initial == Disposition::Ignore && !over {
        assert!(r == Err(SetActionError::InitiallyIgnored), "C11 signal ignored on entry cannot be trapped");
        assert!(sys.disp.get() == Disposition::Ignore, "C11 ignored-on-entry signal stays ignored");
        let g = get(&map).unwrap();
        assert!(g.current_state.action == Action::Ignore && g.current_state.origin == Origin::Inherited,
            "C11 ignored-on-entry signal recorded as inherited");
    } else {
        assert!(r == Ok(()), "C11 first set_action succeeds");
        let g = get(&map).unwrap();
        assert!(rank(setting(&g.current_state.action)) == nk.min(2), "C11 action recorded");
        assert!(g.internal_disposition == Disposition::Default && g.parent_state.is_none(), "C11 fresh record");
        assert!(sys.disp.get() == setting(&action(nk, cmd)), "C11 installed disposition after first set_action");
        assert!(sys.sets.get() <= 2, "C11 at most probe + set");
    }
    kani::cover!(r == Err(SetActionError::InitiallyIgnored), "InitiallyIgnored reachable");
    kani::cover!(r.is_ok() && nk == 2, "command trap installed");
    kani::cover!(true, "each: step completed");
    std::mem::forget(map);
}

// set_internal_disposition (occupied and vacant)
fn step_internal_occupied(ak: u8, ok: u8, cmd: &Cmd) {
    let (g, sys) = pre(ak, ok, kani::any(), cmd);
    let cond = Condition::Signal(sys.sig);
    let old_installed = sys.disp.get();
    let old_internal = g.internal_disposition;
    let mut map: Slot = Some((cond, g));
    let d = any_disp();
    let r = now(GrandState::set_internal_disposition(&sys, SEntry::from_slot(&mut map, cond), d));
    let g = get(&map).unwrap();
    assert!(!sys.foreign.get(), "C11 only the signal concerned is touched");
    assert!(j(g, &sys), "C11 installed disposition = max(internal, trap action) after set_internal_disposition");
    assert!(rank(setting(&g.current_state.action)) == ak.min(2), "C11 internal change keeps the trap action");
    let want = merged(d, &action(ak, cmd));
    if want == old_installed {
        assert!(r.is_ok() && sys.sets.get() == 0, "C11 system not called when nothing changes");
        assert!(g.internal_disposition == d, "C11 internal disposition recorded");
    } else if sys.fails {
        assert!(r.is_err() && g.internal_disposition == old_internal && sys.disp.get() == old_installed,
            "C11 record and system agree after a system error");
    } else {
        assert!(r.is_ok() && sys.sets.get() == 1 && sys.disp.get() == want, "C11 handler installed exactly once");
        assert!(g.internal_disposition == d, "C11 internal disposition recorded");
    }
    kani::cover!(r.is_ok() && sys.sets.get() == 1 && ak == 0, "internal change visible under a default trap");
    kani::cover!(r.is_ok() && sys.sets.get() == 0 && d != old_internal, "internal change hidden behind the trap");
    kani::cover!(true, "each: step completed");
    std::mem::forget(map);
}

fn step_internal_vacant() {
    let sys = vacant_sys();
    let cond = Condition::Signal(sys.sig);
    let initial = sys.disp.get();
    let mut map: Slot = None;
    let d = any_disp();
    let r = now(GrandState::set_internal_disposition(&sys, SEntry::from_slot(&mut map, cond), d));
    assert!(!sys.foreign.get(), "C11 only the signal concerned is touched");
    match get(&map) {
        None => {
            assert!(sys.disp.get() == initial && sys.sets.get() == 0, "C11 no record => nothing installed");
            assert!(d == Disposition::Default || sys.fails, "C11 a needed handler is never dropped silently");
            assert!(r.is_ok() == (d == Disposition::Default), "C11 result of a vacant internal change");
        }
        Some(g) => {
            assert!(r.is_ok(), "C11 internal disposition installed");
            assert!(g.internal_disposition == d && sys.disp.get() == d, "C11 internal handler installed as asked");
            // the trap action remembers what the signal was on entry
            let a = &g.current_state.action;
            assert!((initial == Disposition::Ignore) == (*a == Action::Ignore), "C11 initially ignored signal remembered");
            assert!(g.current_state.origin == Origin::Inherited, "C11 inherited origin");
        }
    }
    kani::cover!(get(&map).is_some(), "record created");
    kani::cover!(true, "each: step completed");
    std::mem::forget(map);
}

// enter_subshell
fn step_enter_subshell(ak: u8, ok: u8, opt: u8, cmd: &Cmd) {
    let (mut g, sys) = pre(ak, ok, false, cmd);
    let cond = Condition::Signal(sys.sig);
    let old_installed = sys.disp.get();
    let old_internal = g.internal_disposition;
    let option = match opt {
        0 => EnterSubshellOption::KeepInternalDisposition,
        1 => EnterSubshellOption::ClearInternalDisposition,
        _ => EnterSubshellOption::Ignore,
    };
    let r = now(g.enter_subshell(&sys, cond, option));
    assert!(!sys.foreign.get(), "C11 only the signal concerned is touched");
    // expected new action: command traps are reset to default, ignore stays ignore
    let exp_kind: u8 = if opt == 2 { 1 } else if ak == 2 { 0 } else { ak };
    assert!(rank(setting(&g.current_state.action)) == exp_kind, "C11 subshell: command trap reset, ignore kept");
    if ak == 2 {
        assert!(matches!(&g.parent_state, Some(p) if matches!(p.action, Action::Command(_))), "C11 parent trap remembered");
    } else {
        assert!(g.parent_state.is_none(), "C11 no parent state without a command trap");
    }
    if ak == 1 {
        // an ignored signal stays ignored AND keeps its "ignored on entry" marker
        assert!(g.current_state.origin == origin(ok), "C11 subshell keeps the origin of an ignored signal");
    }
    let exp_internal = if opt == 0 { old_internal } else { Disposition::Default };
    assert!(g.internal_disposition == exp_internal, "C11 subshell internal disposition");
    let want = merged(exp_internal, &action(exp_kind, cmd));
    if want == old_installed {
        assert!(r.is_ok() && sys.sets.get() == 0, "C11 subshell: system untouched when nothing changes");
    } else if !sys.fails {
        assert!(r.is_ok() && sys.sets.get() == 1 && sys.disp.get() == want, "C11 subshell: disposition installed once");
    }
    if !sys.fails {
        assert!(j(&g, &sys), "C11 installed disposition = max(internal, trap action) after enter_subshell");
    }
    kani::cover!(ak == 2 && opt == 1 && !sys.fails && sys.sets.get() == 1, "command trap reset in subshell");
    kani::cover!(ak == 1 && opt == 1 && sys.sets.get() == 0, "ignored stays ignored");
    kani::cover!(true, "each: step completed");
    std::mem::forget(g);
}

// ignore (vacant only) and the pending flag
fn step_ignore_and_pending(ak: u8, cmd: &Cmd) {
    {
        let sys = vacant_sys();
        let cond = Condition::Signal(sys.sig);
        let initial = sys.disp.get();
        let mut map: Slot = None;
        let r = match SEntry::from_slot(&mut map, cond) {
            SEntry::Vacant(v) => now(GrandState::ignore(&sys, v)),
            _ => unreachable!(),
        };
        if sys.fails {
            assert!(r.is_err() && get(&map).is_none() && sys.disp.get() == initial, "C11 failed ignore leaves nothing behind");
        } else {
            let g = get(&map).unwrap();
            assert!(r.is_ok() && g.current_state.action == Action::Ignore && sys.disp.get() == Disposition::Ignore, "C11 ignore installs Ignore");
            assert!((g.current_state.origin == Origin::Inherited) == (initial == Disposition::Ignore), "C11 ignore remembers whether the signal was ignored on entry");
            assert!(j(g, &sys), "C11 invariant after ignore");
        }
        std::mem::forget(map);
    }
    {
        let (mut g, sys) = pre(ak, 2, false, cmd);
        let was = g.current_state.pending;
        let n: u8 = kani::any();
        kani::assume(n <= 2);
        let mut k = 0;
        while k < n {
            g.mark_as_caught();
            k += 1;
        }
        let first = g.handle_if_caught().is_some();
        let second = g.handle_if_caught().is_some();
        assert!(first == (was || n > 0), "C11 a caught signal is handed out");
        assert!(!second, "C11 ... exactly once");
        assert!(j(&g, &sys) && sys.sets.get() == 0, "C11 pending flag does not touch dispositions");
        kani::cover!(first && n == 2, "two deliveries before the boundary collapse into one pending flag");
        std::mem::forget(g);
    }
}

macro_rules! harness {
    ($name:ident, $body:expr) => {
        #[kani::proof]
        #[kani::unwind(6)]
        fn $name() {
            let cmd = Cmd;
            let keep = cmd.clone();
            #[allow(clippy::redundant_closure_call)]
            ($body)(&cmd);
            std::mem::forget(keep);
        }
    };
}

// Arms (action kind x origin kind of the pre-state) are concrete per harness; the new
// action kind / option is selected symbolically among explicitly written arms (no loops:
// a loop over arms would force a large unwinding bound onto every other loop).
macro_rules! three {
    ($sel:ident, $f:expr) => {
        if $sel == 0 {
            $f(0u8)
        } else if $sel == 1 {
            $f(1u8)
        } else {
            $f(2u8)
        }
    };
}

macro_rules! per_state {
    ($step:ident, $n00:ident, $n01:ident, $n02:ident, $n10:ident, $n11:ident, $n12:ident, $n20:ident, $n21:ident, $n22:ident) => {
        per_state!(@one $step, $n00, 0, 0);
        per_state!(@one $step, $n01, 0, 1);
        per_state!(@one $step, $n02, 0, 2);
        per_state!(@one $step, $n10, 1, 0);
        per_state!(@one $step, $n11, 1, 1);
        per_state!(@one $step, $n12, 1, 2);
        per_state!(@one $step, $n20, 2, 0);
        per_state!(@one $step, $n21, 2, 1);
        per_state!(@one $step, $n22, 2, 2);
    };
    (@one $step:ident, $name:ident, $ak:expr, $ok:expr) => {
        harness!($name, |cmd: &Cmd| {
            let sel: u8 = kani::any();
            kani::assume(sel < 3);
            three!(sel, |k: u8| $step($ak, $ok, k, cmd));
        });
    };
}

// set_action on an existing record: pre-state (action, origin) per harness, new action symbolic
per_state!(step_set_action_occupied, c11_set_action_occ_default_inherited, c11_set_action_occ_default_subshell,
    c11_set_action_occ_default_user, c11_set_action_occ_ignore_inherited, c11_set_action_occ_ignore_subshell,
    c11_set_action_occ_ignore_user, c11_set_action_occ_command_inherited, c11_set_action_occ_command_subshell,
    c11_set_action_occ_command_user);
// enter_subshell: pre-state per harness, option symbolic
per_state!(step_enter_subshell, c11_enter_subshell_default_inherited, c11_enter_subshell_default_subshell,
    c11_enter_subshell_default_user, c11_enter_subshell_ignore_inherited, c11_enter_subshell_ignore_subshell,
    c11_enter_subshell_ignore_user, c11_enter_subshell_command_inherited, c11_enter_subshell_command_subshell,
    c11_enter_subshell_command_user);

fn internal_occ(ak: u8, ok: u8, _unused: u8, cmd: &Cmd) {
    step_internal_occupied(ak, ok, cmd)
}
per_state!(internal_occ, c11_internal_occ_default_inherited, c11_internal_occ_default_subshell,
    c11_internal_occ_default_user, c11_internal_occ_ignore_inherited, c11_internal_occ_ignore_subshell,
    c11_internal_occ_ignore_user, c11_internal_occ_command_inherited, c11_internal_occ_command_subshell,
    c11_internal_occ_command_user);

harness!(c11_set_action_vacant, |cmd: &Cmd| {
    let sel: u8 = kani::any();
    kani::assume(sel < 3);
    three!(sel, |k: u8| step_set_action_vacant(k, cmd));
});
harness!(c11_internal_vacant, |_cmd: &Cmd| {
    step_internal_vacant();
});
harness!(c11_ignore_and_pending, |cmd: &Cmd| {
    let sel: u8 = kani::any();
    kani::assume(sel < 3);
    three!(sel, |k: u8| step_ignore_and_pending(k, cmd));
});
