// C10 — the shell-error handlers of yash-semantics/src/handle.rs (injected under handle.rs).
// Snapshot transform T3: `print_report(env, &self.to_report()).await` (diagnostic formatting
// through annotate-snippets) is compiled out under cfg(kani); what is decided is the Divert /
// exit status each handler returns (docs/src/termination.md "Shell errors",
// docs/src/language/commands/exit_status.md):
//   syntax error, expansion error     -> the current command is interrupted, status 2
//                                        (expansion error under applicable errexit: exit, status 2)
//   interrupted expansion             -> interrupt with the interrupting status
//   input I/O error                   -> interrupt, status 128 (2 in a dot script)
//   redirection error                 -> $? = 2 and execution CONTINUES

use super::*;
use yash_env::job::Pid;
use yash_env::option::{ErrExit, Off, On};
use yash_env::source::{Code, Location};
use yash_env::stack::{Frame, Stack};
use yash_env::system::{Errno, GetPid};
use yash_env::io::Fd;

struct Sys;
impl GetPid for Sys {
    fn getpid(&self) -> Pid { Pid(2) }
    fn getppid(&self) -> Pid { Pid(1) }
    fn getpgrp(&self) -> Pid { Pid(2) }
    fn getsid(&self, _pid: Pid) -> Result<Pid, Errno> { Ok(Pid(2)) }
}
impl Isatty for Sys {
    fn isatty(&self, _fd: Fd) -> bool { false }
}
impl WriteAll for Sys {
    fn write_all(&self, _fd: Fd, _data: &[u8]) -> impl Future<Output = Result<(), Errno>> {
        std::future::ready(Ok(()))
    }
}

fn fixed_state() -> std::hash::RandomState {
    unsafe { std::mem::transmute([0u64; 2]) }
}

fn now<F: Future>(f: F) -> F::Output {
    let mut f = std::mem::ManuallyDrop::new(f);
    let mut f = unsafe { std::pin::Pin::new_unchecked(&mut *f) };
    let mut cx = std::task::Context::from_waker(std::task::Waker::noop());
    match f.as_mut().poll(&mut cx) {
        std::task::Poll::Ready(v) => v,
        std::task::Poll::Pending => panic!("nothing to wait for"),
    }
}

/// Env with symbolic errexit option, exit status and 0-2 frames (Condition or Loop).
fn any_env() -> (Env<Sys>, bool) {
    let mut env = Env::with_system(Sys);
    let on: bool = kani::any();
    env.options.set(ErrExit, if on { On } else { Off });
    let depth: u8 = kani::any();
    kani::assume(depth <= 2);
    let (c0, c1): (bool, bool) = (kani::any(), kani::any());
    let mut v: Vec<Frame> = Vec::with_capacity(3);
    if depth >= 1 {
        v.push(if c0 { Frame::Condition } else { Frame::Loop });
    }
    if depth >= 2 {
        v.push(if c1 { Frame::Condition } else { Frame::Subshell });
    }
    let in_condition = (depth >= 1 && c0) || (depth >= 2 && c1);
    env.stack = Stack::from(v);
    env.exit_status = ExitStatus(kani::any());
    (env, on && !in_condition)
}

#[kani::proof]
#[kani::unwind(6)]
#[kani::stub(std::hash::RandomState::new, fixed_state)]
fn c10_handle_expansion_error() {
    let (mut env, errexit_applies) = any_env();
    let loc = Location::dummy("");
    let keep = loc.clone();
    let interrupted: bool = kani::any();
    let st: i32 = kani::any();
    let cause = if interrupted { ErrorCause::Interrupted(ExitStatus(st)) } else { ErrorCause::CommandSubstError(Errno::ENOSYS) };
    let error = crate::expansion::Error { cause, location: loc };
    let r = now(error.handle(&mut env));
    if interrupted {
        assert!(r == Break(Divert::Interrupt(Some(ExitStatus(st)))), "C10 an interrupted expansion interrupts with that status");
    } else if errexit_applies {
        assert!(r == Break(Divert::Exit(Some(ExitStatus::ERROR))), "C10 expansion error under errexit exits with status 2");
    } else {
        assert!(r == Break(Divert::Interrupt(Some(ExitStatus::ERROR))), "C10 expansion error interrupts the command with status 2");
    }
    kani::cover!(!interrupted && errexit_applies, "expansion error under applicable errexit");
    kani::cover!(!interrupted && !errexit_applies, "expansion error without errexit");
    std::mem::forget(error);
    std::mem::forget(env);
    std::mem::forget(keep);
}

#[kani::proof]
#[kani::unwind(6)]
#[kani::stub(std::hash::RandomState::new, fixed_state)]
fn c10_handle_redirection_error() {
    let (mut env, _errexit_applies) = any_env();
    let loc = Location::dummy("");
    let keep = loc.clone();
    let which: bool = kani::any();
    let cause = if which { crate::redir::ErrorCause::UnsupportedPipeRedirection } else { crate::redir::ErrorCause::UnsupportedHereString };
    let error = crate::redir::Error { cause, location: loc };
    let r = now(error.handle(&mut env));
    assert!(r == Continue(()), "C10 a redirection error of an ordinary command does not stop the script");
    assert!(env.exit_status == ExitStatus::ERROR, "C10 ... it only sets $? to the error status");
    kani::cover!(true, "reached");
    std::mem::forget(error);
    std::mem::forget(env);
    std::mem::forget(keep);
}

#[kani::proof]
#[kani::unwind(6)]
#[kani::stub(std::hash::RandomState::new, fixed_state)]
fn c10_handle_syntax_error() {
    let (mut env, _errexit_applies) = any_env();
    let loc = Location::dummy("");
    let keep = loc.clone();
    let error = yash_syntax::parser::Error {
        cause: yash_syntax::parser::ErrorCause::Syntax(yash_syntax::parser::SyntaxError::IncompleteEscape),
        location: loc,
    };
    let r = now(error.handle(&mut env));
    assert!(r == Break(Divert::Interrupt(Some(ExitStatus::ERROR))), "C10 a syntax error interrupts with status 2");
    kani::cover!(true, "reached");
    std::mem::forget(error);
    std::mem::forget(env);
    std::mem::forget(keep);
}
