// C03 — in-crate Kani harnesses for yash-arith/src/eval.rs.
// Injected into a snapshot copy of eval.rs as a child module (cfg(kani) only),
// so `super::` reaches the private kernels `binary_result`, `apply_prefix`, …
//
// Oracle: exact arithmetic in i128 (written from ISO C 6.5 / XCU 2.6.4), never
// a copy of the implementation's checked_* calls.

use super::{binary_result, Error, EvalError};
use crate::ast::BinaryOperator;
use crate::ast::BinaryOperator::*;
use crate::token::Value;

type R = Result<Value, Error<(), ()>>;

fn run(l: i64, r: i64, op: BinaryOperator) -> R {
    binary_result::<(), ()>(Value::Integer(l), Value::Integer(r), op, &(3..5))
}

/// The exact result must be representable, and then returned; otherwise Overflow.
fn expect_exact(res: R, exact: i128) {
    if exact >= i64::MIN as i128 && exact <= i64::MAX as i128 {
        match res {
            Ok(Value::Integer(v)) => assert!(v as i128 == exact, "C03 exact value"),
            Err(_) => panic!("C03 representable result reported as error"),
        }
    } else {
        match res {
            Ok(_) => panic!("C03 unrepresentable result returned as a value"),
            Err(e) => {
                assert!(matches!(e.cause, EvalError::Overflow), "C03 error kind");
                assert!(e.location == (3..5), "C03 error location");
            }
        }
    }
}

fn pick(sel: u8, plain: BinaryOperator, assign: BinaryOperator) -> BinaryOperator {
    if sel & 1 == 0 { plain } else { assign }
}

/// Bound: lhs, rhs full 64-bit; operator in {+, +=, -, -=}.
#[kani::proof]
fn c03_addsub() {
    let l: i64 = kani::any();
    let r: i64 = kani::any();
    let sel: u8 = kani::any();
    let add: bool = kani::any();
    let op = if add { pick(sel, Add, AddAssign) } else { pick(sel, Subtract, SubtractAssign) };
    let exact = if add { l as i128 + r as i128 } else { l as i128 - r as i128 };
    let res = run(l, r, op);
    kani::cover!(res.is_err(), "overflow reachable");
    kani::cover!(res.is_ok(), "value reachable");
    expect_exact(res, exact);
}

/// Bound: lhs, rhs full 64-bit; operator in {*, *=}.
#[kani::proof]
fn c03_mul() {
    let l: i64 = kani::any();
    let r: i64 = kani::any();
    let sel: u8 = kani::any();
    let op = pick(sel, Multiply, MultiplyAssign);
    let res = run(l, r, op);
    kani::cover!(res.is_err(), "overflow reachable");
    kani::cover!(res.is_ok(), "value reachable");
    expect_exact(res, l as i128 * r as i128);
}

/// Bound: lhs, rhs full 64-bit; operators | |= ^ ^= & &= == != < > <= >= || && and `=`
/// (value part). These can never fail.
#[kani::proof]
fn c03_bitwise_logical_compare() {
    let l: i64 = kani::any();
    let r: i64 = kani::any();
    let sel: u8 = kani::any();
    let k: u8 = kani::any();
    kani::assume(k < 12);
    let (op, exact): (BinaryOperator, i64) = match k {
        0 => (pick(sel, BitwiseOr, BitwiseOrAssign), l | r),
        1 => (pick(sel, BitwiseXor, BitwiseXorAssign), l ^ r),
        2 => (pick(sel, BitwiseAnd, BitwiseAndAssign), l & r),
        3 => (EqualTo, if l == r { 1 } else { 0 }),
        4 => (NotEqualTo, if l == r { 0 } else { 1 }),
        5 => (LessThan, if (l as i128) < (r as i128) { 1 } else { 0 }),
        6 => (GreaterThan, if (l as i128) > (r as i128) { 1 } else { 0 }),
        7 => (LessThanOrEqualTo, if (l as i128) <= (r as i128) { 1 } else { 0 }),
        8 => (GreaterThanOrEqualTo, if (l as i128) >= (r as i128) { 1 } else { 0 }),
        9 => (LogicalOr, if l == 0 && r == 0 { 0 } else { 1 }),
        10 => (LogicalAnd, if l == 0 || r == 0 { 0 } else { 1 }),
        _ => (Assign, r),
    };
    let res = run(l, r, op);
    match res {
        Ok(Value::Integer(v)) => assert!(v == exact, "C03 bitwise/logical/compare value"),
        Err(_) => panic!("C03 total operator reported an error"),
    }
    kani::cover!(k == 5 && exact == 1, "less-than true reachable");
    kani::cover!(k == 11, "assign reachable");
}

/// Bound: lhs, rhs full 64-bit; operators << <<= >> >>=.
/// Spec: rhs < 0 -> ReverseShifting; lhs < 0 on `<<` -> LeftShiftingNegative (takes
/// precedence, as in the documentation of EvalError); count >= 64 or a result that
/// does not fit -> Overflow; else the exact value lhs * 2^rhs resp. floor(lhs / 2^rhs).
#[kani::proof]
fn c03_shift() {
    let l: i64 = kani::any();
    let r: i64 = kani::any();
    let sel: u8 = kani::any();
    let left: bool = kani::any();
    let op = if left { pick(sel, ShiftLeft, ShiftLeftAssign) } else { pick(sel, ShiftRight, ShiftRightAssign) };
    let res = run(l, r, op);
    if left && l < 0 {
        match res {
            Err(e) => assert!(matches!(e.cause, EvalError::LeftShiftingNegative), "C03 << negative lhs"),
            Ok(_) => panic!("C03 << of negative value returned a value"),
        }
    } else if r < 0 {
        match res {
            Err(e) => assert!(matches!(e.cause, EvalError::ReverseShifting), "C03 negative shift count"),
            Ok(_) => panic!("C03 negative shift count returned a value"),
        }
    } else if r >= 64 {
        match res {
            Err(e) => assert!(matches!(e.cause, EvalError::Overflow), "C03 oversize shift count"),
            Ok(_) => panic!("C03 oversize shift count returned a value"),
        }
    } else if left {
        // 0 <= l, 0 <= r < 64: exact = l * 2^r fits in i128
        let exact = (l as i128) << (r as u32);
        kani::cover!(exact > i64::MAX as i128, "left shift overflow reachable");
        kani::cover!(exact <= i64::MAX as i128 && r == 62, "left shift by 62 ok reachable");
        expect_exact(res, exact);
    } else {
        // arithmetic right shift = floor division by 2^r
        let exact = (l as i128) >> (r as u32);
        kani::cover!(l < 0 && r == 63, "right shift of negative by 63 reachable");
        expect_exact(res, exact);
    }
}

/// Bound: operands in [-256, 255] ∪ {MIN, MIN+1, MAX-1, MAX}; operators / /= % %=.
/// (Full 64-bit division is decided by E3, the MIR->SMT engine: CBMC does not finish.)
#[kani::proof]
fn c03_divrem_bounded() {
    fn dom(x: i64) -> bool {
        (-256..=255).contains(&x) || x == i64::MIN || x == i64::MIN + 1 || x == i64::MAX || x == i64::MAX - 1
    }
    let l: i64 = kani::any();
    let r: i64 = kani::any();
    kani::assume(dom(l) && dom(r));
    let sel: u8 = kani::any();
    let div: bool = kani::any();
    let op = if div { pick(sel, Divide, DivideAssign) } else { pick(sel, Remainder, RemainderAssign) };
    let res = run(l, r, op);
    if r == 0 {
        match res {
            Err(e) => assert!(matches!(e.cause, EvalError::DivisionByZero), "C03 division by zero"),
            Ok(_) => panic!("C03 division by zero returned a value"),
        }
        return;
    }
    // C semantics: truncation toward zero; (a/b)*b + a%b == a.
    let (a, b) = (l as i128, r as i128);
    let q = a / b;
    let m = a % b;
    if div {
        kani::cover!(q > i64::MAX as i128, "MIN / -1 reachable");
        expect_exact(res, q);
    } else if q > i64::MAX as i128 || q < i64::MIN as i128 {
        // MIN % -1: the quotient is unrepresentable; C leaves it undefined, the
        // property demands "an error instead of a wrong value" or the exact 0.
        match res {
            Ok(Value::Integer(v)) => assert!(v == 0, "C03 MIN % -1 value"),
            Err(e) => assert!(matches!(e.cause, EvalError::Overflow), "C03 MIN % -1 error kind"),
        }
    } else {
        expect_exact(res, m);
    }
}

// ---------------------------------------------------------------------------
// Unary operators on values, and lazy evaluation of && || ?: on ASTs built directly.
// ---------------------------------------------------------------------------
use super::{apply_postfix, apply_prefix, eval};
use crate::ast::{Ast, PostfixOperator, PrefixOperator};
use crate::token::Term;

/// Recording environment: one variable slot `x` (unset), counts assignments per name.
struct Rec {
    assigned_x: u8,
    assigned_y: u8,
    last_len: usize,
}

impl crate::env::Env for Rec {
    type GetVariableError = ();
    type AssignVariableError = ();
    fn get_variable(&self, _name: &str) -> Result<Option<&str>, ()> {
        Ok(None)
    }
    fn assign_variable(&mut self, name: &str, value: String, _location: std::ops::Range<usize>) -> Result<(), ()> {
        if name.as_bytes()[0] == b'x' {
            self.assigned_x += 1;
        } else {
            self.assigned_y += 1;
        }
        self.last_len = value.len();
        std::mem::forget(value);
        Ok(())
    }
}

/// Bound: operand any i64; operators + - ! ~ on a value, and ++ -- (prefix and postfix) on a
/// value (which must be refused).
#[kani::proof]
#[kani::unwind(4)]
fn c03_unary_on_values() {
    let v: i64 = kani::any();
    let k: u8 = kani::any();
    kani::assume(k < 8);
    let mut env = Rec { assigned_x: 0, assigned_y: 0, last_len: 0 };
    let term = Term::Value(Value::Integer(v));
    let loc = 3..5;
    let res = match k {
        0 => apply_prefix(term, PrefixOperator::NumericCoercion, &loc, &mut env),
        1 => apply_prefix(term, PrefixOperator::NumericNegation, &loc, &mut env),
        2 => apply_prefix(term, PrefixOperator::LogicalNegation, &loc, &mut env),
        3 => apply_prefix(term, PrefixOperator::BitwiseNegation, &loc, &mut env),
        4 => apply_prefix(term, PrefixOperator::Increment, &loc, &mut env),
        5 => apply_prefix(term, PrefixOperator::Decrement, &loc, &mut env),
        6 => apply_postfix(term, PostfixOperator::Increment, &loc, &mut env),
        _ => apply_postfix(term, PostfixOperator::Decrement, &loc, &mut env),
    };
    assert!(env.assigned_x == 0 && env.assigned_y == 0, "C03 unary operator on a value assigns nothing");
    match k {
        0 => assert!(matches!(res, Ok(Value::Integer(r)) if r == v), "C03 unary +"),
        1 => {
            if v == i64::MIN {
                assert!(matches!(res, Err(ref e) if matches!(e.cause, EvalError::Overflow)), "C03 -MIN overflows");
            } else {
                assert!(matches!(res, Ok(Value::Integer(r)) if r as i128 == -(v as i128)), "C03 unary -");
            }
        }
        2 => assert!(matches!(res, Ok(Value::Integer(r)) if r == (if v == 0 { 1 } else { 0 })), "C03 !"),
        3 => assert!(matches!(res, Ok(Value::Integer(r)) if r as i128 == -(v as i128) - 1), "C03 ~"),
        _ => assert!(matches!(res, Err(ref e) if matches!(e.cause, EvalError::AssignmentToValue)), "C03 ++/-- need a variable"),
    }
    kani::cover!(k == 1 && v == i64::MIN, "negation overflow reachable");
    kani::cover!(k >= 4, "increment of a value reachable");
}

fn val(v: i64) -> Ast<'static> {
    Ast::Term(Term::Value(Value::Integer(v)))
}

fn var(name: &'static str) -> Ast<'static> {
    Ast::Term(Term::Variable { name, location: 0..1 })
}

fn bin(op: BinaryOperator, rhs_len: usize) -> Ast<'static> {
    Ast::Binary { operator: op, rhs_len, location: 1..2 }
}

/// Bound: the templates  l || 1/0,  l && 1/0,  c ? 1/0 : 5,  c ? 5 : 1/0,  (c ? 0 : 1) || 1/0
/// with c / l any i64.
/// Decided: the unevaluated operand raises nothing (it is not evaluated at all, so it has no
/// side effect either); the evaluated one does; && || yield 0/1.
/// (Templates with an assignment in the skipped operand were dropped: `assign` formats the
/// value with `to_string`, and the integer formatting machinery did not finish in 20 min.)
fn lazy(t: u8) {
    let c: i64 = kani::any();
    let mut env = Rec { assigned_x: 0, assigned_y: 0, last_len: 0 };
    // stack arrays, one template per harness (a heap-allocated Vec of these enums makes CBMC
    // encode them bytewise; several templates in one harness multiply the recursion unwinding)
    let r = match t {
        0 => eval(&[val(c), val(1), val(0), bin(Divide, 1), bin(LogicalOr, 3)], &mut env),
        1 => eval(&[val(c), val(1), val(0), bin(Divide, 1), bin(LogicalAnd, 3)], &mut env),
        2 => eval(&[val(c), val(1), val(0), bin(Divide, 1), val(5), Ast::Conditional { then_len: 3, else_len: 1 }], &mut env),
        3 => eval(&[val(c), val(5), val(1), val(0), bin(Divide, 1), Ast::Conditional { then_len: 1, else_len: 3 }], &mut env),
        _ => eval(&[val(c), val(0), val(1), Ast::Conditional { then_len: 1, else_len: 1 }, val(1), val(0), bin(Divide, 1), bin(LogicalOr, 3)], &mut env),
    };
    let r = match r {
        Ok(term) => super::into_value(term, &env),
        Err(e) => Err(e),
    };
    let div0 = matches!(r, Err(ref e) if matches!(e.cause, EvalError::DivisionByZero));
    match t {
        0 => {
            if c != 0 {
                assert!(matches!(r, Ok(Value::Integer(1))), "C03 || skips its right operand when the left is non-zero");
            } else {
                assert!(div0, "C03 || evaluates its right operand when the left is zero");
            }
        }
        1 => {
            if c == 0 {
                assert!(matches!(r, Ok(Value::Integer(0))), "C03 && skips its right operand when the left is zero");
            } else {
                assert!(div0, "C03 && evaluates its right operand when the left is non-zero");
            }
        }
        2 => {
            if c != 0 {
                assert!(div0, "C03 ?: evaluates the chosen branch");
            } else {
                assert!(matches!(r, Ok(Value::Integer(5))), "C03 ?: does not evaluate the other branch");
            }
        }
        3 => {
            if c != 0 {
                assert!(matches!(r, Ok(Value::Integer(5))), "C03 ?: does not evaluate the other branch");
            } else {
                assert!(div0, "C03 ?: evaluates the chosen branch");
            }
        }
        _ => {
            // (c ? 0 : 1) || 1/0
            if c == 0 {
                assert!(matches!(r, Ok(Value::Integer(1))), "C03 nested: left operand 1 short-circuits");
            } else {
                assert!(div0, "C03 nested: left operand 0 evaluates the right");
            }
        }
    }
    assert!(env.assigned_x == 0 && env.assigned_y == 0, "C03 no assignment happens");
    kani::cover!(div0, "erroneous operand evaluated");
    kani::cover!(r.is_ok(), "erroneous operand skipped");
}

macro_rules! lazy_harness {
    ($name:ident, $t:expr) => {
        #[kani::proof]
        #[kani::unwind(6)]
        fn $name() {
            lazy($t);
        }
    };
}
lazy_harness!(c03_lazy_or, 0);
lazy_harness!(c03_lazy_and, 1);
// ?: — one template per harness; recursion of eval() is bounded per template through
// --unwindset (core.Harness.recursion_bounds) instead of the global unwind: the branch taken is a
// symbolically selected sub-slice, so every further level of recursion multiplies the formula by
// the number of Ast variants (with the global bound 6 the minimal template was at 8 GB after
// 8 min).
/// Stand-in for `assign` in the ?: harnesses: the same call to the environment (so a skipped
/// operand that assigned would still be seen) without formatting the value — `Value::to_string`
/// pulls `core::fmt` into every explored variant of the symbolically selected branch.
fn assign_no_fmt<E: crate::env::Env>(
    name: &str,
    value: Value,
    location: std::ops::Range<usize>,
    env: &mut E,
) -> Result<Value, super::Error<E::GetVariableError, E::AssignVariableError>> {
    match env.assign_variable(name, String::new(), location.clone()) {
        Ok(()) => Ok(value),
        Err(e) => Err(super::Error { cause: EvalError::AssignVariableError(e), location }),
    }
}

macro_rules! cond_harness {
    ($name:ident, $t:expr) => {
        #[kani::proof]
        #[kani::unwind(6)]
        #[kani::stub(super::assign, assign_no_fmt)]
        fn $name() {
            lazy($t);
        }
    };
}
// Measured: with eval() recursion bounded to 3 levels and `assign` stubbed, the three templates
// below still unwind 112 copies of eval() (1.9 M symex steps) and run out of memory at 24 GB in
// propositional reduction.  They are not registered; the LAZINESS of ?: stays outside the claim,
// its CONDITION TEST is decided by c03_cond_select below (recursion depth 2 suffices there).
#[cfg(any())]
mod unregistered {
    cond_harness!(c03_cond_then_err, 2);
    cond_harness!(c03_cond_else_err, 3);
    cond_harness!(c03_cond_nested, 4);
}

/// Bound: template `c ? a : b`, c, a, b any i64.  Decided: the value is a when c != 0, else b.
#[kani::proof]
#[kani::unwind(6)]
fn c03_cond_select() {
    let c: i64 = kani::any();
    let a: i64 = kani::any();
    let b: i64 = kani::any();
    let mut env = Rec { assigned_x: 0, assigned_y: 0, last_len: 0 };
    let r = eval(&[val(c), val(a), val(b), Ast::Conditional { then_len: 1, else_len: 1 }], &mut env);
    let r = match r {
        Ok(term) => super::into_value(term, &env),
        Err(e) => Err(e),
    };
    let want = if c != 0 { a } else { b };
    assert!(matches!(r, Ok(Value::Integer(v)) if v == want), "C03 ?: selects the second operand iff the first is non-zero");
    kani::cover!(c < 0, "negative condition reachable");
}

// ---------------------------------------------------------------------------------------------
// Compound assignment and ++ / -- on VARIABLES.
//
// `apply_binary` (compound arm), `apply_prefix` / `apply_postfix` (increment / decrement) read the
// variable through `expand_variable` (str::parse of the stored text) and write it back through
// `assign` (Value::to_string). Both conversions are integer <-> text formatting, which CBMC does
// not finish on symbolic values; they are stubbed by their contract: the variable holds the
// (symbolic) integer VAR_VALUE, and an assignment records the assigned integer. What is decided is
// everything in between: which kernel runs with which operands in which order, what is assigned,
// what is returned, and that an error assigns nothing.

static mut VAR_VALUE: i64 = 0;
static mut ASSIGNED: u8 = 0;
static mut ASSIGNED_VALUE: i64 = 0;

fn expand_variable_sym<E: crate::env::Env>(
    _name: &str,
    _location: &std::ops::Range<usize>,
    _env: &E,
) -> Result<Value, super::Error<E::GetVariableError, E::AssignVariableError>> {
    Ok(Value::Integer(unsafe { VAR_VALUE }))
}

fn assign_rec<E: crate::env::Env>(
    _name: &str,
    value: Value,
    _location: std::ops::Range<usize>,
    _env: &mut E,
) -> Result<Value, super::Error<E::GetVariableError, E::AssignVariableError>> {
    let Value::Integer(v) = value;
    unsafe {
        ASSIGNED += 1;
        ASSIGNED_VALUE = v;
    }
    Ok(value)
}

fn compound(ops: &[(BinaryOperator, BinaryOperator)], bounded: bool) {
    let l: i64 = kani::any();
    let r: i64 = kani::any();
    if bounded {
        let small = |v: i64| (-256..=255).contains(&v) || v == i64::MIN || v == i64::MIN + 1 || v == i64::MAX;
        kani::assume(small(l) && small(r));
    }
    let k: usize = kani::any();
    kani::assume(k < ops.len());
    let (assign_op, plain_op) = ops[k];
    unsafe {
        VAR_VALUE = l;
        ASSIGNED = 0;
    }
    let mut env = Rec { assigned_x: 0, assigned_y: 0, last_len: 0 };
    let lhs = Term::Variable { name: "x", location: 0..1 };
    let rhs = Term::Value(Value::Integer(r));
    let got = super::apply_binary(lhs, rhs, assign_op, &(3..5), &mut env);
    // the plain operator on the same operands (its exactness is decided by the kernel obligations)
    let want = run(l, r, plain_op);
    match (&got, &want) {
        (Ok(Value::Integer(g)), Ok(Value::Integer(w))) => {
            assert!(g == w, "C03 compound assignment yields the value of the plain operator");
            assert!(unsafe { ASSIGNED == 1 && ASSIGNED_VALUE == *w }, "C03 compound assignment assigns exactly that value, once");
        }
        (Err(g), Err(w)) => {
            assert!(std::mem::discriminant(&g.cause) == std::mem::discriminant(&w.cause), "C03 compound assignment reports the error of the plain operator");
            assert!(unsafe { ASSIGNED == 0 }, "C03 a failed compound assignment assigns nothing");
        }
        _ => panic!("C03 compound assignment and plain operator disagree about success"),
    }
    kani::cover!(got.is_err(), "error reachable");
    kani::cover!(got.is_ok(), "value reachable");
}

#[kani::proof]
#[kani::unwind(4)]
#[kani::stub(super::expand_variable, expand_variable_sym)]
#[kani::stub(super::assign, assign_rec)]
fn c03_compound_assign_linear() {
    compound(
        &[(AddAssign, Add), (SubtractAssign, Subtract), (BitwiseOrAssign, BitwiseOr), (BitwiseXorAssign, BitwiseXor),
          (BitwiseAndAssign, BitwiseAnd), (ShiftLeftAssign, ShiftLeft), (ShiftRightAssign, ShiftRight)],
        false,
    );
}

#[kani::proof]
#[kani::unwind(4)]
#[kani::stub(super::expand_variable, expand_variable_sym)]
#[kani::stub(super::assign, assign_rec)]
fn c03_compound_assign_mul() {
    compound(&[(MultiplyAssign, Multiply)], false);
}

#[kani::proof]
#[kani::unwind(4)]
#[kani::stub(super::expand_variable, expand_variable_sym)]
#[kani::stub(super::assign, assign_rec)]
fn c03_compound_assign_divrem_bounded() {
    compound(&[(DivideAssign, Divide), (RemainderAssign, Remainder)], true);
}

/// ++x, --x, x++, x-- on a variable holding any i64.
#[kani::proof]
#[kani::unwind(4)]
#[kani::stub(super::expand_variable, expand_variable_sym)]
#[kani::stub(super::assign, assign_rec)]
fn c03_incdec_on_variable() {
    let v: i64 = kani::any();
    let k: u8 = kani::any();
    kani::assume(k < 4);
    unsafe {
        VAR_VALUE = v;
        ASSIGNED = 0;
    }
    let mut env = Rec { assigned_x: 0, assigned_y: 0, last_len: 0 };
    let term = Term::Variable { name: "x", location: 0..1 };
    let loc = 3..5;
    let res = match k {
        0 => apply_prefix(term, PrefixOperator::Increment, &loc, &mut env),
        1 => apply_prefix(term, PrefixOperator::Decrement, &loc, &mut env),
        2 => apply_postfix(term, PostfixOperator::Increment, &loc, &mut env),
        _ => apply_postfix(term, PostfixOperator::Decrement, &loc, &mut env),
    };
    let new = if k == 0 || k == 2 { v as i128 + 1 } else { v as i128 - 1 };
    if new > i64::MAX as i128 || new < i64::MIN as i128 {
        assert!(matches!(res, Err(ref e) if matches!(e.cause, EvalError::Overflow)), "C03 ++/-- past the edge is an overflow error");
        assert!(unsafe { ASSIGNED == 0 }, "C03 a failed ++/-- assigns nothing");
    } else {
        let want = if k < 2 { new as i64 } else { v };
        assert!(matches!(res, Ok(Value::Integer(r)) if r == want), "C03 prefix ++/-- yield the new value, postfix the old one");
        assert!(unsafe { ASSIGNED == 1 && ASSIGNED_VALUE as i128 == new }, "C03 ++/-- assign the new value once");
    }
    kani::cover!(res.is_err(), "overflow reachable");
    kani::cover!(res.is_ok() && k >= 2, "postfix reachable");
}

// ---------------------------------------------------------------------------------------------
// "A variable whose value is an integer constant denotes that constant, so $((x)) and $(($x)) agree."
//
// The REAL `expand_variable` (text -> integer as used for `$((x))`) against the REAL tokenizer (text
// -> integer as used for `$(($x))`) on the same symbolic word: whenever the tokenizer reads the whole
// word as a constant c and the variable expansion yields a value v, then v == c. (An error on either
// side is allowed by the property - "an error instead of a wrong value" -, a different value is not.)

struct TextEnv<'a>(&'a str);

impl crate::env::Env for TextEnv<'_> {
    type GetVariableError = ();
    type AssignVariableError = ();
    fn get_variable(&self, _name: &str) -> Result<Option<&str>, ()> {
        Ok(Some(self.0))
    }
    fn assign_variable(&mut self, _name: &str, value: String, _location: std::ops::Range<usize>) -> Result<(), ()> {
        std::mem::forget(value);
        Ok(())
    }
}

pub fn any_bool_above_ascii(c: char) -> bool {
    let r: bool = kani::any();
    if (c as u32) < 0x80 { c.is_ascii_alphanumeric() } else { r }
}

fn variable_agrees(n: usize) {
    let mut buf = [0u8; 8];
    let mut i = 0;
    while i < n {
        let b: u8 = kani::any();
        kani::assume(b.is_ascii_alphanumeric());
        if i == 0 {
            kani::assume(b.is_ascii_digit());
        }
        buf[i] = b;
        i += 1;
    }
    let text = unsafe { std::str::from_utf8_unchecked(&buf[..n]) };
    let tok = crate::token::Tokens::new(text).next_token();
    let env = TextEnv(text);
    let var = super::expand_variable("x", &(0..1), &env);
    if let Ok(t) = &tok {
        if let crate::token::TokenValue::Term(Term::Value(Value::Integer(c))) = &t.value {
            if t.location.end == n {
                if let Ok(Value::Integer(v)) = &var {
                    assert!(c == v, "C03 a variable whose value is an integer constant denotes that constant");
                }
                kani::cover!(var.is_ok(), "constant accepted as a variable value");
            }
        }
    }
    std::mem::forget(tok);
    std::mem::forget(var);
}

macro_rules! var_harness {
    ($name:ident, $n:expr) => {
        #[kani::proof] // unwinding bounds are passed per harness (word length + 6; operator table: 39)
        #[kani::stub(core::unicode::unicode_data::alphabetic::lookup, any_bool_above_ascii)]
        #[kani::stub(core::unicode::unicode_data::n::lookup, any_bool_above_ascii)]
        fn $name() {
            variable_agrees($n);
        }
    };
}
var_harness!(c03_variable_constant_1, 1);
var_harness!(c03_variable_constant_2, 2);
var_harness!(c03_variable_constant_3, 3);
var_harness!(c03_variable_constant_4, 4);
