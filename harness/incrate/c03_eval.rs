// C03 — in-crate Kani harnesses for yash-arith/src/eval.rs.
// Injected into a snapshot copy of eval.rs as a child module (cfg(kani) only),
// so `super::` reaches the private kernels `binary_result`, `apply_prefix`, …
//
// Oracle: exact arithmetic in i128 (written from ISO C 6.5 / XCU 2.6.4), never
// a copy of the implementation's checked_* calls.

use super::{binary_result, Error, EvalError};
use crate::ast::BinaryOperator;
use crate::ast::BinaryOperator::*;
use crate::token::Value;

type R = Result<Value, Error<(), ()>>;

fn run(l: i64, r: i64, op: BinaryOperator) -> R {
    binary_result::<(), ()>(Value::Integer(l), Value::Integer(r), op, &(3..5))
}

/// The exact result must be representable, and then returned; otherwise Overflow.
fn expect_exact(res: R, exact: i128) {
    if exact >= i64::MIN as i128 && exact <= i64::MAX as i128 {
        match res {
            Ok(Value::Integer(v)) => assert!(v as i128 == exact, "C03 exact value"),
            Err(_) => panic!("C03 representable result reported as error"),
        }
    } else {
        match res {
            Ok(_) => panic!("C03 unrepresentable result returned as a value"),
            Err(e) => {
                assert!(matches!(e.cause, EvalError::Overflow), "C03 error kind");
                assert!(e.location == (3..5), "C03 error location");
            }
        }
    }
}

fn pick(sel: u8, plain: BinaryOperator, assign: BinaryOperator) -> BinaryOperator {
    if sel & 1 == 0 { plain } else { assign }
}

/// Bound: lhs, rhs full 64-bit; operator in {+, +=, -, -=}.
#[kani::proof]
fn c03_addsub() {
    let l: i64 = kani::any();
    let r: i64 = kani::any();
    let sel: u8 = kani::any();
    let add: bool = kani::any();
    let op = if add { pick(sel, Add, AddAssign) } else { pick(sel, Subtract, SubtractAssign) };
    let exact = if add { l as i128 + r as i128 } else { l as i128 - r as i128 };
    let res = run(l, r, op);
    kani::cover!(res.is_err(), "overflow reachable");
    kani::cover!(res.is_ok(), "value reachable");
    expect_exact(res, exact);
}

/// Bound: lhs, rhs full 64-bit; operator in {*, *=}.
#[kani::proof]
fn c03_mul() {
    let l: i64 = kani::any();
    let r: i64 = kani::any();
    let sel: u8 = kani::any();
    let op = pick(sel, Multiply, MultiplyAssign);
    let res = run(l, r, op);
    kani::cover!(res.is_err(), "overflow reachable");
    kani::cover!(res.is_ok(), "value reachable");
    expect_exact(res, l as i128 * r as i128);
}

/// Bound: lhs, rhs full 64-bit; operators | |= ^ ^= & &= == != < > <= >= || && and `=`
/// (value part). These can never fail.
#[kani::proof]
fn c03_bitwise_logical_compare() {
    let l: i64 = kani::any();
    let r: i64 = kani::any();
    let sel: u8 = kani::any();
    let k: u8 = kani::any();
    kani::assume(k < 12);
    let (op, exact): (BinaryOperator, i64) = match k {
        0 => (pick(sel, BitwiseOr, BitwiseOrAssign), l | r),
        1 => (pick(sel, BitwiseXor, BitwiseXorAssign), l ^ r),
        2 => (pick(sel, BitwiseAnd, BitwiseAndAssign), l & r),
        3 => (EqualTo, if l == r { 1 } else { 0 }),
        4 => (NotEqualTo, if l == r { 0 } else { 1 }),
        5 => (LessThan, if (l as i128) < (r as i128) { 1 } else { 0 }),
        6 => (GreaterThan, if (l as i128) > (r as i128) { 1 } else { 0 }),
        7 => (LessThanOrEqualTo, if (l as i128) <= (r as i128) { 1 } else { 0 }),
        8 => (GreaterThanOrEqualTo, if (l as i128) >= (r as i128) { 1 } else { 0 }),
        9 => (LogicalOr, if l == 0 && r == 0 { 0 } else { 1 }),
        10 => (LogicalAnd, if l == 0 || r == 0 { 0 } else { 1 }),
        _ => (Assign, r),
    };
    let res = run(l, r, op);
    match res {
        Ok(Value::Integer(v)) => assert!(v == exact, "C03 bitwise/logical/compare value"),
        Err(_) => panic!("C03 total operator reported an error"),
    }
    kani::cover!(k == 5 && exact == 1, "less-than true reachable");
    kani::cover!(k == 11, "assign reachable");
}

/// Bound: lhs, rhs full 64-bit; operators << <<= >> >>=.
/// Spec: rhs < 0 -> ReverseShifting; lhs < 0 on `<<` -> LeftShiftingNegative (takes
/// precedence, as in the documentation of EvalError); count >= 64 or a result that
/// does not fit -> Overflow; else the exact value lhs * 2^rhs resp. floor(lhs / 2^rhs).
#[kani::proof]
fn c03_shift() {
    let l: i64 = kani::any();
    let r: i64 = kani::any();
    let sel: u8 = kani::any();
    let left: bool = kani::any();
    let op = if left { pick(sel, ShiftLeft, ShiftLeftAssign) } else { pick(sel, ShiftRight, ShiftRightAssign) };
    let res = run(l, r, op);
    if left && l < 0 {
        match res {
            Err(e) => assert!(matches!(e.cause, EvalError::LeftShiftingNegative), "C03 << negative lhs"),
            Ok(_) => panic!("C03 << of negative value returned a value"),
        }
    } else if r < 0 {
        match res {
            Err(e) => assert!(matches!(e.cause, EvalError::ReverseShifting), "C03 negative shift count"),
            Ok(_) => panic!("C03 negative shift count returned a value"),
        }
    } else if r >= 64 {
        match res {
            Err(e) => assert!(matches!(e.cause, EvalError::Overflow), "C03 oversize shift count"),
            Ok(_) => panic!("C03 oversize shift count returned a value"),
        }
    } else if left {
        // 0 <= l, 0 <= r < 64: exact = l * 2^r fits in i128
        let exact = (l as i128) << (r as u32);
        kani::cover!(exact > i64::MAX as i128, "left shift overflow reachable");
        kani::cover!(exact <= i64::MAX as i128 && r == 62, "left shift by 62 ok reachable");
        expect_exact(res, exact);
    } else {
        // arithmetic right shift = floor division by 2^r
        let exact = (l as i128) >> (r as u32);
        kani::cover!(l < 0 && r == 63, "right shift of negative by 63 reachable");
        expect_exact(res, exact);
    }
}

/// Bound: operands in [-256, 255] ∪ {MIN, MIN+1, MAX-1, MAX}; operators / /= % %=.
/// (Full 64-bit division is decided by E3, the MIR->SMT engine: CBMC does not finish.)
#[kani::proof]
fn c03_divrem_bounded() {
    fn dom(x: i64) -> bool {
        (-256..=255).contains(&x) || x == i64::MIN || x == i64::MIN + 1 || x == i64::MAX || x == i64::MAX - 1
    }
    let l: i64 = kani::any();
    let r: i64 = kani::any();
    kani::assume(dom(l) && dom(r));
    let sel: u8 = kani::any();
    let div: bool = kani::any();
    let op = if div { pick(sel, Divide, DivideAssign) } else { pick(sel, Remainder, RemainderAssign) };
    let res = run(l, r, op);
    if r == 0 {
        match res {
            Err(e) => assert!(matches!(e.cause, EvalError::DivisionByZero), "C03 division by zero"),
            Ok(_) => panic!("C03 division by zero returned a value"),
        }
        return;
    }
    // C semantics: truncation toward zero; (a/b)*b + a%b == a.
    let (a, b) = (l as i128, r as i128);
    let q = a / b;
    let m = a % b;
    if div {
        kani::cover!(q > i64::MAX as i128, "MIN / -1 reachable");
        expect_exact(res, q);
    } else if q > i64::MAX as i128 || q < i64::MIN as i128 {
        // MIN % -1: the quotient is unrepresentable; C leaves it undefined, the
        // property demands "an error instead of a wrong value" or the exact 0.
        match res {
            Ok(Value::Integer(v)) => assert!(v == 0, "C03 MIN % -1 value"),
            Err(e) => assert!(matches!(e.cause, EvalError::Overflow), "C03 MIN % -1 error kind"),
        }
    } else {
        expect_exact(res, m);
    }
}
