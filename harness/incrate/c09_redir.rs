// C09 — one redirection through the REAL `perform` (yash-semantics/src/redir.rs) on a stub
// system with a symbolic descriptor table, in which every system call may fail.
// Injected under redir.rs. Snapshot transform T2: `expand_word` / `expand_text` are
// replaced by the models below (word expansion reaches command substitution, whose
// subshell is spawned with an async closure: Kani 0.68 ICE), the here-document temp file
// is modelled by one `open`, and the bound of `perform` is narrowed to the five traits it
// still uses.
//
// Descriptor world: 12 descriptors. 0-9 user descriptors (open/closed, access mode and
// close-on-exec symbolic), 10-11 internal. Each open descriptor carries a tag identifying
// its open file description.

use super::*;
use std::cell::Cell;
use std::ffi::CStr;
use yash_env::path::Path;
use yash_env::system::{Close, Dir, DirEntry, Dup, Fcntl, FdFlag, FileType, Fstat, GetPid, Gid, Mode, OfdAccess, Open, OpenFlag, Stat, Uid};
use yash_env::job::Pid;
use yash_syntax::source::Location as SLocation;
use yash_syntax::syntax::{RedirBody, RedirOp, Text, Word};

const NFD: usize = 6; // T6': MIN_INTERNAL_FD scaled from 10 to 4 in the snapshot: 0-3 user, 4-5 internal

#[derive(Clone, Copy, PartialEq, Eq, Debug)]
pub(super) struct FdSt {
    open: bool,
    cloexec: bool,
    access: u8, // 0 read-only, 1 write-only, 2 read-write
    tag: u8,
}

const CLOSED: FdSt = FdSt { open: false, cloexec: false, access: 0, tag: 0 };

#[derive(Debug)]
pub(super) struct Sys {
    fds: [Cell<FdSt>; NFD],
    may_fail: Cell<bool>,
    next_tag: Cell<u8>,
    regular: bool,
    opens: Cell<u8>,
    last_access: Cell<u8>,
    last_flags: Cell<u8>,
}

impl Clone for Sys {
    fn clone(&self) -> Self {
        unreachable!()
    }
}

fn fail(sys: &Sys) -> bool {
    sys.may_fail.get() && kani::any::<bool>()
}

impl Sys {
    fn idx(fd: Fd) -> Option<usize> {
        if fd.0 >= 0 && (fd.0 as usize) < NFD { Some(fd.0 as usize) } else { None }
    }
    fn lowest_free(&self, min: usize) -> Option<usize> {
        // unrolled: the unwinding bound of the harness is also the recursion bound of the
        // (recursive) drop glue of Location, and must stay small
        macro_rules! t {
            ($i:expr) => {
                if min <= $i && !self.fds[$i].get().open {
                    return Some($i);
                }
            };
        }
        t!(0); t!(1); t!(2); t!(3); t!(4); t!(5);
        None
    }
}

macro_rules! each_fd {
    ($f:expr) => {
        $f(0usize); $f(1usize); $f(2usize); $f(3usize); $f(4usize); $f(5usize);
    };
}

impl GetPid for Sys {
    fn getpid(&self) -> Pid { Pid(2) }
    fn getppid(&self) -> Pid { Pid(1) }
    fn getpgrp(&self) -> Pid { Pid(2) }
    fn getsid(&self, _pid: Pid) -> yash_env::system::Result<Pid> { Ok(Pid(2)) }
}

impl Close for Sys {
    fn close(&self, fd: Fd) -> yash_env::system::Result<()> {
        // POSIX: closing a closed descriptor is EBADF; the descriptor is closed otherwise
        match Sys::idx(fd) {
            Some(i) if self.fds[i].get().open => {
                self.fds[i].set(CLOSED);
                Ok(())
            }
            _ => Err(Errno::EBADF),
        }
    }
}

impl Dup for Sys {
    fn dup(&self, from: Fd, to_min: Fd, flags: EnumSet<FdFlag>) -> yash_env::system::Result<Fd> {
        let f = match Sys::idx(from) {
            Some(i) if self.fds[i].get().open => self.fds[i].get(),
            _ => return Err(Errno::EBADF),
        };
        if fail(self) {
            return Err(Errno::EMFILE);
        }
        let min = match Sys::idx(to_min) {
            Some(i) => i,
            None => return Err(Errno::EINVAL),
        };
        match self.lowest_free(min) {
            Some(i) => {
                self.fds[i].set(FdSt { cloexec: flags.contains(FdFlag::CloseOnExec), ..f });
                Ok(Fd(i as i32))
            }
            None => Err(Errno::EMFILE),
        }
    }
    fn dup2(&self, from: Fd, to: Fd) -> yash_env::system::Result<Fd> {
        let f = match Sys::idx(from) {
            Some(i) if self.fds[i].get().open => self.fds[i].get(),
            _ => return Err(Errno::EBADF),
        };
        if fail(self) {
            return Err(Errno::EINTR);
        }
        match Sys::idx(to) {
            Some(i) => {
                if from != to {
                    self.fds[i].set(FdSt { cloexec: false, ..f });
                }
                Ok(to)
            }
            None => Err(Errno::EBADF),
        }
    }
}

impl Fcntl for Sys {
    fn ofd_access(&self, fd: Fd) -> yash_env::system::Result<OfdAccess> {
        match Sys::idx(fd) {
            Some(i) if self.fds[i].get().open => Ok(match self.fds[i].get().access {
                0 => OfdAccess::ReadOnly,
                1 => OfdAccess::WriteOnly,
                _ => OfdAccess::ReadWrite,
            }),
            _ => Err(Errno::EBADF),
        }
    }
    fn get_and_set_nonblocking(&self, _fd: Fd, _nonblocking: bool) -> yash_env::system::Result<bool> {
        Ok(false)
    }
    fn fcntl_getfd(&self, fd: Fd) -> yash_env::system::Result<EnumSet<FdFlag>> {
        match Sys::idx(fd) {
            Some(i) if self.fds[i].get().open => {
                Ok(if self.fds[i].get().cloexec { FdFlag::CloseOnExec.into() } else { EnumSet::empty() })
            }
            _ => Err(Errno::EBADF),
        }
    }
    fn fcntl_setfd(&self, fd: Fd, flags: EnumSet<FdFlag>) -> yash_env::system::Result<()> {
        match Sys::idx(fd) {
            Some(i) if self.fds[i].get().open => {
                let mut f = self.fds[i].get();
                f.cloexec = flags.contains(FdFlag::CloseOnExec);
                self.fds[i].set(f);
                Ok(())
            }
            _ => Err(Errno::EBADF),
        }
    }
}

#[derive(Clone, Debug)]
pub(super) struct St(bool);

impl Stat for St {
    fn dev(&self) -> u64 { 0 }
    fn ino(&self) -> u64 { 0 }
    fn mode(&self) -> Mode { Mode::empty() }
    fn r#type(&self) -> FileType { if self.0 { FileType::Regular } else { FileType::Fifo } }
    fn nlink(&self) -> u64 { 1 }
    fn uid(&self) -> Uid { Uid(0) }
    fn gid(&self) -> Gid { Gid(0) }
    fn size(&self) -> u64 { 0 }
}

impl Fstat for Sys {
    type Stat = St;
    fn fstat(&self, fd: Fd) -> yash_env::system::Result<St> {
        match Sys::idx(fd) {
            Some(i) if self.fds[i].get().open => Ok(St(self.regular)),
            _ => Err(Errno::EBADF),
        }
    }
    fn fstatat(&self, _dir_fd: Fd, _path: &CStr, _follow_symlinks: bool) -> yash_env::system::Result<St> {
        Err(Errno::ENOENT)
    }
}

#[derive(Debug)]
pub(super) struct NoDir;
impl Dir for NoDir {
    fn next(&mut self) -> yash_env::system::Result<Option<DirEntry<'_>>> {
        Ok(None)
    }
}

impl Sys {
    fn do_open(&self, access: u8, flagbits: u8) -> yash_env::system::Result<Fd> {
        self.opens.set(self.opens.get() + 1);
        self.last_access.set(access);
        self.last_flags.set(flagbits);
        if fail(self) {
            // the errno values the redirection code distinguishes, and one it does not
            let k: u8 = kani::any();
            return Err(match k % 3 {
                0 => Errno::EEXIST,
                1 => Errno::ENOENT,
                _ => Errno::EMFILE,
            });
        }
        match self.lowest_free(0) {
            Some(i) => {
                let tag = self.next_tag.get();
                self.next_tag.set(tag + 1);
                self.fds[i].set(FdSt { open: true, cloexec: false, access, tag });
                Ok(Fd(i as i32))
            }
            None => Err(Errno::EMFILE),
        }
    }
}

impl Open for Sys {
    fn open(
        &self,
        _path: &CStr,
        access: OfdAccess,
        flags: EnumSet<OpenFlag>,
        _mode: Mode,
    ) -> impl Future<Output = yash_env::system::Result<Fd>> + use<> {
        let a = match access {
            OfdAccess::ReadOnly => 0,
            OfdAccess::WriteOnly => 1,
            _ => 2,
        };
        let mut bits = 0u8;
        if flags.contains(OpenFlag::Create) { bits |= 1; }
        if flags.contains(OpenFlag::Truncate) { bits |= 2; }
        if flags.contains(OpenFlag::Append) { bits |= 4; }
        if flags.contains(OpenFlag::Exclusive) { bits |= 8; }
        std::future::ready(self.do_open(a, bits))
    }
    fn open_tmpfile(&self, _parent_dir: &Path) -> yash_env::system::Result<Fd> {
        self.do_open(2, 0)
    }
    fn fdopendir(&self, _fd: Fd) -> yash_env::system::Result<impl Dir + use<>> {
        Err::<NoDir, _>(Errno::ENOSYS)
    }
    fn opendir(&self, _path: &CStr) -> yash_env::system::Result<impl Dir + use<>> {
        Err::<NoDir, _>(Errno::ENOSYS)
    }
}

// -- T2 models of the expansion of the operand ----------------------------------
// what the operand expands to is chosen by the harness through these cells
static mut OPERAND_KIND: u8 = 0; // 0 expansion error, 1 "f" (a path), 2 "-", 3 one decimal digit
static mut OPERAND_DIGIT: u8 = 0;

pub(super) async fn expand_word<S>(
    _env: &mut Env<S>,
    word: &Word,
) -> crate::expansion::Result<(Field, Option<ExitStatus>)> {
    let (kind, digit) = unsafe { (OPERAND_KIND, OPERAND_DIGIT) };
    let origin = word.location.clone();
    match kind {
        0 => Err(crate::expansion::Error {
            cause: crate::expansion::ErrorCause::CommandSubstError(Errno::ENOSYS),
            location: origin,
        }),
        1 => Ok((Field { value: String::from("f"), origin }, None)),
        2 => Ok((Field { value: String::from("-"), origin }, None)),
        _ => {
            const DIGITS: [&str; 6] = ["0", "1", "2", "3", "4", "5"];
            Ok((Field { value: String::from(DIGITS[digit as usize]), origin }, None))
        }
    }
}

pub(super) async fn expand_text<S>(
    _env: &mut Env<S>,
    _text: &Text,
) -> crate::expansion::Result<(String, Option<ExitStatus>)> {
    Ok((String::new(), None))
}

/// Model of here_doc::open_fd: one temporary file, which may fail to open.
pub(super) async fn open_here_doc_fd<S: Open>(env: &mut Env<S>, content: String) -> std::result::Result<Fd, ErrorCause> {
    std::mem::forget(content);
    match env.system.open_tmpfile(Path::new("/tmp")) {
        Ok(fd) => Ok(fd),
        Err(errno) => Err(ErrorCause::TemporaryFileUnavailable(errno)),
    }
}

fn now<F: Future>(f: F) -> F::Output {
    // The future is never dropped: once it has completed, its drop glue would still be explored
    // for every suspension state (CBMC cannot see that the generator is in its final state), and
    // those states own errors, fields and locations with recursive drop glue.
    let mut f = std::mem::ManuallyDrop::new(f);
    let mut f = unsafe { std::pin::Pin::new_unchecked(&mut *f) };
    let mut cx = std::task::Context::from_waker(std::task::Waker::noop());
    match f.as_mut().poll(&mut cx) {
        std::task::Poll::Ready(v) => v,
        std::task::Poll::Pending => panic!("stub system futures are always ready"),
    }
}

fn fixed_state() -> std::hash::RandomState {
    unsafe { std::mem::transmute([0u64; 2]) }
}

fn any_fd_state(tag: u8, may_cloexec: bool) -> FdSt {
    let open: bool = kani::any();
    if !open {
        return CLOSED;
    }
    let access: u8 = kani::any();
    kani::assume(access < 3);
    FdSt { open: true, cloexec: may_cloexec && kani::any::<bool>(), access, tag }
}

fn snapshot(sys: &Sys) -> [FdSt; NFD] {
    let mut a = [CLOSED; NFD];
    each_fd!(|i: usize| a[i] = sys.fds[i].get());
    a
}

/// op: the operator; target: the descriptor being redirected (concrete per harness);
/// kind: what the operand expands to (see OPERAND_KIND); src: the digit for <& / >&.
fn check_one(op: RedirOp, target: i32, kind: u8, src: u8) {
    unsafe {
        OPERAND_KIND = kind;
        OPERAND_DIGIT = src;
    }
    let sys = Sys {
        fds: [const { Cell::new(CLOSED) }; NFD],
        may_fail: Cell::new(true),
        next_tag: Cell::new(100),
        regular: kani::any(),
        opens: Cell::new(0),
        last_access: Cell::new(9),
        last_flags: Cell::new(0),
    };
    // symbolic initial table: the target, the source of a dup, one more user descriptor and the
    // two internal descriptors are arbitrary; 0-2 otherwise open
    each_fd!(|i: usize| {
        let st = if i == target as usize || (kind == 3 && i == src as usize) || i >= 4 {
            any_fd_state(10 + i as u8, true)
        } else if i < 3 {
            FdSt { open: true, cloexec: false, access: 2, tag: 10 + i as u8 }
        } else {
            CLOSED
        };
        sys.fds[i].set(st);
    });
    let mut env = Env::with_system(sys);
    let noclobber: bool = kani::any();
    if noclobber {
        env.options.set(Clobber, Off);
    }
    let before = snapshot(&env.system);
    let loc = SLocation::dummy("");
    let keep = loc.clone();
    let redir = Redir {
        fd: Some(Fd(target)),
        body: RedirBody::Normal { operator: op, operand: Word { units: Vec::new(), location: loc } },
    };
    let r = now(perform(&mut env, &redir, None));
    let after = snapshot(&env.system);
    let t = target as usize;
    match &r {
        Err(_) => {
            // a redirection that failed must leave the descriptor table exactly as it was
            each_fd!(|i: usize| assert!(after[i] == before[i], "C09 failed redirection leaves no descriptor behind and changes none"));
        }
        Ok((saved, _)) => {
            assert!(saved.original == Fd(target), "C09 saved record names the target");
            // the saved copy: exists iff the target was open, lives at >= 10 with close-on-exec,
            // and refers to the target's old open file description
            match saved.save {
                Some(s) => {
                    let si = s.0 as usize;
                    assert!(before[t].open && s.0 >= 4 && si < NFD, "C09 saved copy is an internal descriptor");
                    assert!(!before[si].open && after[si].open && after[si].cloexec && after[si].tag == before[t].tag,
                        "C09 saved copy is a close-on-exec duplicate of the old target");
                }
                None => assert!(!before[t].open, "C09 an open target is always saved"),
            }
            assert!(!before[t].open || !before[t].cloexec, "C09 a close-on-exec (internal) target is refused");
            // the target now refers to what the operator asked for
            match kind {
                2 => assert!(!after[t].open, "C09 n<&- closes the target"),
                3 => {
                    let s = src as usize;
                    assert!(before[s].open && !before[s].cloexec, "C09 source of a duplication must be open and not internal");
                    assert!(after[t].open && after[t].tag == before[s].tag && (s == t || !after[t].cloexec), "C09 target duplicates the source");
                }
                _ => assert!(after[t].open && after[t].tag >= 100 && !after[t].cloexec, "C09 target refers to the newly opened file"),
            }
            // no other descriptor changed: in particular the temporary descriptor is closed again
            each_fd!(|i: usize| {
                if i != t && Some(Fd(i as i32)) != saved.save {
                    assert!(after[i] == before[i], "C09 no other descriptor is touched or left open");
                }
            });
        }
    }
    kani::cover!(r.is_err() && before[t].open && !before[t].cloexec, "failure after the target was saved");
    kani::cover!(r.is_ok() && before[t].open, "successful redirection of an open target");
    kani::cover!(true, "each: step completed");
    std::mem::forget(r);
    std::mem::forget(redir);
    std::mem::forget(env);
    std::mem::forget(keep);
}

macro_rules! h {
    ($name:ident, $op:expr, $target:expr, $kind:expr, $src:expr) => {
        #[kani::proof]
        #[kani::unwind(4)]
        #[kani::stub(std::hash::RandomState::new, fixed_state)]
        fn $name() {
            check_one($op, $target, $kind, $src);
        }
    };
}

// file operators: operand expands to a path, or expansion fails
h!(c09_file_in, RedirOp::FileIn, 0, 1, 0);
h!(c09_file_out, RedirOp::FileOut, 1, 1, 0);
h!(c09_file_clobber, RedirOp::FileClobber, 1, 1, 0);
h!(c09_file_append, RedirOp::FileAppend, 1, 1, 0);
h!(c09_file_inout, RedirOp::FileInOut, 3, 1, 0);
h!(c09_file_out_expansion_error, RedirOp::FileOut, 1, 0, 0);
// descriptor operators: close, duplicate an arbitrary descriptor, duplicate onto itself
h!(c09_fd_in_close, RedirOp::FdIn, 0, 2, 0);
h!(c09_fd_out_close, RedirOp::FdOut, 1, 2, 0);
h!(c09_fd_in_dup, RedirOp::FdIn, 0, 3, 3);
h!(c09_fd_out_dup, RedirOp::FdOut, 1, 3, 3);
h!(c09_fd_out_dup_internal, RedirOp::FdOut, 1, 3, 4);
h!(c09_fd_out_dup_self, RedirOp::FdOut, 3, 3, 3);
