// C03 — the text tokenizer (injected under yash-arith/src/token.rs, cfg(kani) only).
//
// Decided here, on the real `Tokens::next_token`:
//  * totality ("no expression text, however malformed, makes the shell panic") and the token
//    protocol for EVERY text of <= 2 (thorough: 3) characters, each character any Unicode scalar
//    value: every call returns a token or an error, token ranges are non-empty, in order, inside the
//    text and on character boundaries, the end-of-input token comes last, and the kind of the token
//    is the one its first character determines (digit -> constant or InvalidNumericConstant, never a
//    variable; letter / underscore -> variable named by exactly that word; operator characters -> the
//    operator spelled by the range);
//  * numeric constants: for every decimal / octal / hexadecimal constant of up to 20 / 23 / 18
//    characters (digits symbolic) the value is the exact mathematical value if it is representable
//    in i64 and the documented error otherwise (never a wrapped value), also when one of the
//    characters is an ASCII letter that is not a digit of the radix.
//
// Stubs (part of the claim): core::unicode::unicode_data::{alphabetic,n}::lookup - the Unicode
// table walks behind char::is_alphanumeric for characters above U+007F - return an ARBITRARY bool
// per call (over-approximation: every real table is one of the behaviours explored). ASCII
// classification, white-space classification, UTF-8 decoding, str slicing, starts_with,
// from_str_radix and str::parse are the real std code as compiled by Kani.
//
// The character widths (UTF-8 lengths) are arm-concrete: one harness per width tuple, so that the
// text length is concrete (shape split, DESIGN.md §3); the characters are symbolic within the width.

use super::*;

pub fn any_bool_for_non_ascii(c: char) -> bool {
    let r: bool = kani::any();
    // the real tables are only consulted above U+007F; below they answer false for non-letters
    if (c as u32) < 0x80 { c.is_ascii_alphanumeric() } else { r }
}

fn put(buf: &mut [u8; 16], at: usize, w: usize) -> char {
    let c: char = kani::any();
    kani::assume(c.len_utf8() == w);
    let mut tmp = [0u8; 4];
    c.encode_utf8(&mut tmp);
    let mut i = 0;
    while i < w {
        buf[at + i] = tmp[i];
        i += 1;
    }
    c
}

fn is_operator_char(c: char) -> bool {
    matches!(c, '?' | ':' | '|' | '^' | '&' | '=' | '!' | '<' | '>' | '+' | '-' | '*' | '/' | '%' | '~' | '(' | ')')
}

/// Length of the longest C operator at the start of `s` (s[0] is an operator character).
fn operator_len(s: &[u8]) -> usize {
    let c1 = if s.len() > 1 { s[1] } else { 0 };
    let c2 = if s.len() > 2 { s[2] } else { 0 };
    match (s[0], c1) {
        (b'<', b'<') | (b'>', b'>') => if c2 == b'=' { 3 } else { 2 },
        (b'|', b'|') | (b'&', b'&') | (b'+', b'+') | (b'-', b'-') => 2,
        (b'|', b'=') | (b'^', b'=') | (b'&', b'=') | (b'=', b'=') | (b'!', b'=') | (b'<', b'=') | (b'>', b'=')
        | (b'+', b'=') | (b'-', b'=') | (b'*', b'=') | (b'/', b'=') | (b'%', b'=') => 2,
        _ => 1,
    }
}

fn spell(op: Operator) -> &'static str {
    use Operator::*;
    match op {
        Question => "?", Colon => ":", Bar => "|", BarBar => "||", BarEqual => "|=", Caret => "^", CaretEqual => "^=",
        And => "&", AndAnd => "&&", AndEqual => "&=", Equal => "=", EqualEqual => "==", Bang => "!", BangEqual => "!=",
        Less => "<", LessEqual => "<=", LessLess => "<<", LessLessEqual => "<<=", Greater => ">", GreaterEqual => ">=",
        GreaterGreater => ">>", GreaterGreaterEqual => ">>=", Plus => "+", PlusPlus => "++", PlusEqual => "+=",
        Minus => "-", MinusMinus => "--", MinusEqual => "-=", Asterisk => "*", AsteriskEqual => "*=", Slash => "/",
        SlashEqual => "/=", Percent => "%", PercentEqual => "%=", Tilde => "~", OpenParen => "(", CloseParen => ")",
    }
}

/// Every text whose characters have the UTF-8 widths `ws`; with `fixed_first` the first character is
/// that concrete ASCII character (representatives of the token classes) and only the others are symbolic.
fn totality(ws: &[usize], fixed_first: Option<char>) {
    let mut buf = [0u8; 16];
    let mut len = 0;
    let mut first = ' ';
    let mut k = 0;
    while k < ws.len() {
        let c = match fixed_first {
            Some(f) if k == 0 => {
                buf[0] = f as u8;
                f
            }
            _ => put(&mut buf, len, ws[k]),
        };
        if k == 0 {
            first = c;
        }
        len += ws[k];
        k += 1;
    }
    let text = unsafe { std::str::from_utf8_unchecked(&buf[..len]) };
    let mut tokens = Tokens::new(text);
    let mut prev_end = 0usize;
    let mut n = 0;
    let mut ended = false;
    // at most one token per character, then the end-of-input token
    while n <= ws.len() {
        let r = tokens.next_token();
        match &r {
            Ok(t) => {
                assert!(t.location.start >= prev_end && t.location.end <= text.len(), "C03 token range in order and within the text");
                assert!(text.is_char_boundary(t.location.start) && text.is_char_boundary(t.location.end), "C03 token range on character boundaries");
                match &t.value {
                    TokenValue::EndOfInput => {
                        assert!(t.location.start == t.location.end, "C03 end-of-input token is empty");
                        ended = true;
                    }
                    TokenValue::Operator(op) => {
                        assert!(t.location.end > t.location.start, "C03 tokenizer makes progress");
                        let rest = &text.as_bytes()[t.location.start..];
                        assert!(is_operator_char(rest[0] as char), "C03 operator token starts with an operator character");
                        // longest match, written from the C token list (not from the OPERATORS table)
                        let want = operator_len(rest);
                        assert!(t.location.end - t.location.start == want, "C03 operator token is the longest operator at that position");
                        assert!(spell(*op).as_bytes() == &rest[..want], "C03 operator token denotes the operator spelled in the text");
                    }
                    TokenValue::Term(Term::Value(_)) => {
                        assert!(t.location.end > t.location.start, "C03 tokenizer makes progress");
                        let c = text[t.location.start..].chars().next().unwrap();
                        assert!(c.is_ascii_digit(), "C03 constant starts with a digit");
                    }
                    TokenValue::Term(Term::Variable { name, location }) => {
                        assert!(t.location.end > t.location.start, "C03 tokenizer makes progress");
                        assert!(*location == t.location, "C03 variable location is the token location");
                        assert!(name.len() == t.location.end - t.location.start, "C03 variable name is the token text");
                        let c = text[t.location.start..].chars().next().unwrap();
                        assert!(!c.is_ascii_digit() && !is_operator_char(c) && !c.is_whitespace(), "C03 variable does not start with a digit, operator or blank");
                    }
                }
                if n == 0 && !first.is_whitespace() {
                    // the first character determines the kind of the first token
                    if first.is_ascii_digit() {
                        assert!(matches!(t.value, TokenValue::Term(Term::Value(_))), "C03 digit-initial word is a constant or an error");
                    } else if is_operator_char(first) {
                        assert!(matches!(t.value, TokenValue::Operator(_)), "C03 operator character starts an operator");
                    } else if first.is_ascii_alphabetic() || first == '_' {
                        assert!(matches!(t.value, TokenValue::Term(Term::Variable { .. })), "C03 letter starts a variable");
                    }
                    assert!(t.location.start == 0, "C03 first token starts at the first non-blank character");
                }
                prev_end = t.location.end;
            }
            Err(e) => {
                assert!(e.location.start >= prev_end && e.location.start < text.len(), "C03 error range starts inside the text");
                if n == 0 && (first.is_ascii_alphabetic() || first == '_' || is_operator_char(first)) {
                    panic!("C03 a word or operator is not an error");
                }
                kani::cover!(true, "tokenizer error reachable");
                ended = true;
            }
        }
        std::mem::forget(r);
        if ended {
            break;
        }
        n += 1;
    }
    assert!(ended, "C03 tokenizer reaches the end of the text or an error within one token per character");
    kani::cover!(ended, "each: end of the text or an error reached");
}

macro_rules! tot {
    ($name:ident, $ws:expr) => {
        #[kani::proof] // unwinding bounds are passed per harness (text length + 3; operator table: 39)
        #[kani::stub(core::unicode::unicode_data::alphabetic::lookup, any_bool_for_non_ascii)]
        #[kani::stub(core::unicode::unicode_data::n::lookup, any_bool_for_non_ascii)]
        fn $name() {
            totality(&$ws, None);
        }
    };
    ($name:ident, $ws:expr, $first:expr) => {
        #[kani::proof]
        #[kani::stub(core::unicode::unicode_data::alphabetic::lookup, any_bool_for_non_ascii)]
        #[kani::stub(core::unicode::unicode_data::n::lookup, any_bool_for_non_ascii)]
        fn $name() {
            totality(&$ws, Some($first));
        }
    };
}
tot!(c03_text_w1, [1]);
tot!(c03_text_w2, [2]);
tot!(c03_text_w3, [3]);
tot!(c03_text_w4, [4]);
// first character concrete (a representative of each token class), the rest symbolic
tot!(c03_text_one_w1, [1, 1], '1');
tot!(c03_text_one_w2, [1, 2], '1');
tot!(c03_text_one_w3, [1, 3], '1');
tot!(c03_text_one_w4, [1, 4], '1');
tot!(c03_text_one_w11, [1, 1, 1], '1'); // @thorough
tot!(c03_text_one_w12, [1, 1, 2], '1'); // @thorough
tot!(c03_text_one_w21, [1, 2, 1], '1'); // @thorough
tot!(c03_text_zero_w1, [1, 1], '0');
tot!(c03_text_zero_w2, [1, 2], '0');
tot!(c03_text_zero_w3, [1, 3], '0');
tot!(c03_text_zero_w4, [1, 4], '0');
tot!(c03_text_zero_w11, [1, 1, 1], '0'); // @thorough
tot!(c03_text_zero_w12, [1, 1, 2], '0'); // @thorough
tot!(c03_text_zero_w21, [1, 2, 1], '0'); // @thorough
tot!(c03_text_a_w1, [1, 1], 'a');
tot!(c03_text_a_w2, [1, 2], 'a');
tot!(c03_text_a_w3, [1, 3], 'a');
tot!(c03_text_a_w4, [1, 4], 'a');
tot!(c03_text_a_w11, [1, 1, 1], 'a'); // @thorough
tot!(c03_text_a_w12, [1, 1, 2], 'a'); // @thorough
tot!(c03_text_a_w21, [1, 2, 1], 'a'); // @thorough
tot!(c03_text_us_w1, [1, 1], '_');
tot!(c03_text_us_w2, [1, 2], '_');
tot!(c03_text_us_w3, [1, 3], '_');
tot!(c03_text_us_w4, [1, 4], '_');
tot!(c03_text_us_w11, [1, 1, 1], '_'); // @thorough
tot!(c03_text_us_w12, [1, 1, 2], '_'); // @thorough
tot!(c03_text_us_w21, [1, 2, 1], '_'); // @thorough
tot!(c03_text_plus_w1, [1, 1], '+');
tot!(c03_text_plus_w2, [1, 2], '+');
tot!(c03_text_plus_w3, [1, 3], '+');
tot!(c03_text_plus_w4, [1, 4], '+');
tot!(c03_text_plus_w11, [1, 1, 1], '+'); // @thorough
tot!(c03_text_plus_w12, [1, 1, 2], '+'); // @thorough
tot!(c03_text_plus_w21, [1, 2, 1], '+'); // @thorough
tot!(c03_text_lt_w1, [1, 1], '<');
tot!(c03_text_lt_w2, [1, 2], '<');
tot!(c03_text_lt_w3, [1, 3], '<');
tot!(c03_text_lt_w4, [1, 4], '<');
tot!(c03_text_lt_w11, [1, 1, 1], '<'); // @thorough
tot!(c03_text_lt_w12, [1, 1, 2], '<'); // @thorough
tot!(c03_text_lt_w21, [1, 2, 1], '<'); // @thorough
tot!(c03_text_sp_w1, [1, 1], ' ');
tot!(c03_text_sp_w2, [1, 2], ' ');
tot!(c03_text_sp_w3, [1, 3], ' ');
tot!(c03_text_sp_w4, [1, 4], ' ');
tot!(c03_text_sp_w11, [1, 1, 1], ' '); // @thorough
tot!(c03_text_sp_w12, [1, 1, 2], ' '); // @thorough
tot!(c03_text_sp_w21, [1, 2, 1], ' '); // @thorough
tot!(c03_text_dollar_w1, [1, 1], '$');
tot!(c03_text_dollar_w2, [1, 2], '$');
tot!(c03_text_dollar_w3, [1, 3], '$');
tot!(c03_text_dollar_w4, [1, 4], '$');
tot!(c03_text_dollar_w11, [1, 1, 1], '$'); // @thorough
tot!(c03_text_dollar_w12, [1, 1, 2], '$'); // @thorough
tot!(c03_text_dollar_w21, [1, 2, 1], '$'); // @thorough
// all characters symbolic
tot!(c03_text_w11, [1, 1]); // @thorough
tot!(c03_text_w12, [1, 2]); // @thorough
tot!(c03_text_w13, [1, 3]); // @thorough
tot!(c03_text_w14, [1, 4]); // @thorough
tot!(c03_text_w21, [2, 1]); // @thorough
tot!(c03_text_w22, [2, 2]); // @thorough
tot!(c03_text_w31, [3, 1]); // @thorough
tot!(c03_text_w41, [4, 1]); // @thorough
tot!(c03_text_w111, [1, 1, 1]); // @thorough
tot!(c03_text_w112, [1, 1, 2]); // @thorough
tot!(c03_text_w113, [1, 1, 3]); // @thorough
tot!(c03_text_w121, [1, 2, 1]); // @thorough
tot!(c03_text_w211, [2, 1, 1]); // @thorough
tot!(c03_text_w1111, [1, 1, 1, 1]); // @thorough

// ---------------------------------------------------------------------------------------------
// numeric constants

fn digit_value(b: u8) -> u32 {
    match b {
        b'0'..=b'9' => (b - b'0') as u32,
        b'a'..=b'z' => (b - b'a') as u32 + 10,
        b'A'..=b'Z' => (b - b'A') as u32 + 10,
        _ => 99,
    }
}

/// `prefix` + `nd` symbolic word characters (ASCII letters / digits), optionally followed by `tail`.
/// Oracle: the value in u128; a character that is not a digit of the radix makes the constant invalid.
fn constant(prefix: &'static str, radix: u32, nd: usize, tail: &'static str, digits_only: bool) {
    let mut buf = [0u8; 32];
    let pb = prefix.as_bytes();
    let mut len = 0;
    while len < pb.len() {
        buf[len] = pb[len];
        len += 1;
    }
    let mut exact: u128 = 0;
    let mut valid = true;
    let mut i = 0;
    while i < nd {
        let b: u8 = kani::any();
        if digits_only {
            kani::assume(digit_value(b) < radix);
        } else {
            kani::assume(b.is_ascii_alphanumeric());
        }
        // a decimal constant starts with a digit other than 0 (0 would make it octal); after the octal
        // prefix "0" an x / X would turn the word into a hexadecimal constant (covered by the hex harnesses)
        if i == 0 && radix == 10 {
            kani::assume(b.is_ascii_digit() && b != b'0');
        }
        if i == 0 && radix == 8 {
            kani::assume(b != b'x' && b != b'X');
        }
        buf[len] = b;
        len += 1;
        let d = digit_value(b);
        if d >= radix {
            valid = false;
        } else {
            exact = exact * radix as u128 + d as u128;
        }
        i += 1;
    }
    let word_len = len;
    let tb = tail.as_bytes();
    let mut j = 0;
    while j < tb.len() {
        buf[len] = tb[j];
        len += 1;
        j += 1;
    }
    // "0x" followed by nothing is not a constant
    if radix == 16 && nd == 0 {
        valid = false;
    }
    let text = unsafe { std::str::from_utf8_unchecked(&buf[..len]) };
    let mut tokens = Tokens::new(text);
    let r = tokens.next_token();
    match &r {
        Ok(t) => {
            assert!(t.location == (0..word_len), "C03 constant token covers the whole word");
            match &t.value {
                TokenValue::Term(Term::Value(Value::Integer(v))) => {
                    assert!(valid, "C03 malformed constant accepted as a value");
                    assert!(exact <= i64::MAX as u128, "C03 unrepresentable constant returned as a (wrapped) value");
                    assert!(*v as i128 == exact as i128, "C03 constant has its exact mathematical value");
                }
                _ => panic!("C03 digit-initial word must be a constant or an error"),
            }
        }
        Err(e) => {
            assert!(!valid || exact > i64::MAX as u128, "C03 valid representable constant rejected");
            assert!(matches!(e.cause, TokenError::InvalidNumericConstant), "C03 error kind for a bad constant");
            assert!(e.location == (0..word_len), "C03 error location covers the word");
        }
    }
    kani::cover!(r.is_ok(), "value reachable");
    kani::cover!(r.is_err() && valid, "overflowing constant reachable");
    std::mem::forget(r);
}

macro_rules! cst {
    ($name:ident, $prefix:expr, $radix:expr, $nd:expr, $tail:expr, $digits_only:expr) => {
        #[kani::proof] // unwinding bounds are passed per harness (word length + 3; operator table: 39)
        #[kani::stub(core::unicode::unicode_data::alphabetic::lookup, any_bool_for_non_ascii)]
        #[kani::stub(core::unicode::unicode_data::n::lookup, any_bool_for_non_ascii)]
        fn $name() {
            constant($prefix, $radix, $nd, $tail, $digits_only);
            kani::cover!(true, "each: reached");
        }
    };
}
// hexadecimal: 2^63 = 0x8000000000000000 (16 digits); 17 digits overflow unless the first is 0
cst!(c03_const_hex_0, "0x", 16, 0, "", true);
cst!(c03_const_hex_1, "0X", 16, 1, "+", true);
cst!(c03_const_hex_15, "0x", 16, 15, "", true);
cst!(c03_const_hex_16, "0x", 16, 16, "", true);
cst!(c03_const_hex_16u, "0X", 16, 16, " ", true);
cst!(c03_const_hex_17, "0x", 16, 17, "", true);
cst!(c03_const_hex_any_3, "0x", 16, 3, "", false);
// decimal: 2^63 = 9223372036854775808 (19 digits)
cst!(c03_const_dec_1, "", 10, 1, "", true);
cst!(c03_const_dec_18, "", 10, 18, "", true);
cst!(c03_const_dec_19, "", 10, 19, "", true);
cst!(c03_const_dec_20, "", 10, 20, ")", true);
cst!(c03_const_dec_any_3, "", 10, 3, "", false);
// octal: 2^63 = 0o1000000000000000000000 (22 digits)
cst!(c03_const_oct_0, "0", 8, 0, "", true);
cst!(c03_const_oct_21, "0", 8, 21, "", true);
cst!(c03_const_oct_22, "0", 8, 22, "", true);
cst!(c03_const_oct_any_3, "0", 8, 3, "*", false);
