// NOT REGISTERED (measured): this harness - Tokens::next_token on two-character texts
// <digit or letter><candidate character>, first character symbolic - was still in symbolic
// execution after 15 min at 5 GB per arm: char::is_alphanumeric / is_whitespace on a symbolic
// character walk the Unicode tables (skip_search unwound ~900 times), and the 37-entry operator
// table is scanned with starts_with. The text tokenizer therefore stays outside the C03 claim
// (seed C03-tokenizer-byte-slice-panic is missed).
// C03 — the text tokenizer on two-character inputs (injected under yash-arith/src/token.rs).
// "No expression text, however malformed, makes the shell panic": decided for every text of
// the form <ASCII digit or letter><c>, c from a list of 20 candidate characters (arm-concrete:
// digits, letters, the hex marker, operators, white space, and multi-byte characters of 2, 3
// and 4 bytes), the first character symbolic. Arbitrary text is outside (two fully symbolic
// bytes: no answer in 20 min).

use super::*;

const SECOND: [&str; 20] = ["0", "9", "a", "x", "X", "_", "+", "=", " ", "\t", "(", "~", "$", "é", "я", "あ", "€", "\u{3000}", "😀", "٣"];

fn check(second: &'static str) {
    let first: u8 = kani::any();
    kani::assume(first.is_ascii_digit() || first == b'a' || first == b'z' || first == b'_');
    let mut buf = [0u8; 8];
    buf[0] = first;
    let sb = second.as_bytes();
    let mut i = 0;
    while i < sb.len() {
        buf[1 + i] = sb[i];
        i += 1;
    }
    let text = unsafe { std::str::from_utf8_unchecked(&buf[..1 + sb.len()]) };
    let mut tokens = Tokens::new(text);
    // totality: a token or an error, never a panic; and the reported range lies in the text
    let r = tokens.next_token();
    match &r {
        Ok(t) => {
            assert!(t.location.start <= t.location.end && t.location.end <= text.len(), "C03 token range within the text");
            if first.is_ascii_digit() && matches!(sb[0], b'+' | b'=' | b' ' | b'\t' | b'(' | b'~') {
                let want = (first - b'0') as i64;
                assert!(matches!(&t.value, TokenValue::Term(Term::Value(Value::Integer(v))) if *v == want), "C03 a digit followed by a non-word character is that constant");
            }
        }
        Err(e) => {
            assert!(e.location.start <= e.location.end, "C03 error range");
            // a digit-initial word that is not a valid constant is an error, not a variable
            assert!(first.is_ascii_digit() || !sb[0].is_ascii(), "C03 only malformed constants and foreign characters are errors here");
        }
    }
    let r2 = tokens.next_token();
    kani::cover!(r.is_err(), "tokenizer error reachable");
    kani::cover!(r.is_ok(), "token reachable");
    std::mem::forget(r);
    std::mem::forget(r2);
}

macro_rules! tok {
    ($name:ident, $i:expr) => {
        #[kani::proof]
        #[kani::unwind(40)] // the operator table has 37 entries
        fn $name() {
            check(SECOND[$i]);
            kani::cover!(true, "each: reached");
        }
    };
}
tok!(c03_token_00, 0);
tok!(c03_token_01, 1);
tok!(c03_token_02, 2);
tok!(c03_token_03, 3);
tok!(c03_token_04, 4);
tok!(c03_token_05, 5);
tok!(c03_token_06, 6);
tok!(c03_token_07, 7);
tok!(c03_token_08, 8);
tok!(c03_token_09, 9);
tok!(c03_token_10, 10);
tok!(c03_token_11, 11);
tok!(c03_token_12, 12);
tok!(c03_token_13, 13);
tok!(c03_token_14, 14);
tok!(c03_token_15, 15);
tok!(c03_token_16, 16);
tok!(c03_token_17, 17);
tok!(c03_token_18, 18);
tok!(c03_token_19, 19);
