// C04 (E1 part) — yash-semantics/src/expansion/attr_fnmatch.rs: which expanded characters
// reach the matcher as literal (quoted) pattern characters. Injected under attr_fnmatch.rs.
//
// Reference (XCU 2.13.1: "a <backslash> shall escape the following character"; quoted
// characters match themselves): scan left to right; a backslash that is itself neither
// quoted nor a quoting character escapes the next character and is dropped; an escaped
// character cannot escape in turn. Quoting characters are dropped, quoted/escaped
// characters become Literal, everything else Normal.

use super::*;
use yash_env::semantics::expansion::attr::Origin;

fn any_origin() -> Origin {
    let k: u8 = kani::any();
    kani::assume(k < 3);
    match k {
        0 => Origin::Literal,
        1 => Origin::HardExpansion,
        _ => Origin::SoftExpansion,
    }
}

fn check<const N: usize>() {
    let mut chars = [AttrChar { value: 'a', origin: Origin::Literal, is_quoted: false, is_quoting: false }; N];
    let mut i = 0;
    while i < N {
        // the value matters only through "is it a backslash": symbolic over all of Unicode
        chars[i] = AttrChar { value: kani::any(), origin: any_origin(), is_quoted: kani::any(), is_quoting: kani::any() };
        i += 1;
    }
    let input = chars;
    // reference
    let mut want = [(false, false, '\0'); N]; // (present, literal, value)
    let mut escaped_next = false;
    let mut i = 0;
    while i < N {
        let c = input[i];
        let escaped = escaped_next;
        escaped_next = false;
        if !escaped && c.value == '\\' && !c.is_quoted && !c.is_quoting && i + 1 < N {
            // an escaping backslash: dropped, the next character is literal
            want[i] = (false, false, c.value);
            escaped_next = true;
        } else if c.is_quoting && !escaped {
            want[i] = (false, false, c.value);
        } else if c.is_quoting {
            // an escaped quoting character: yash drops quoting characters regardless
            want[i] = (false, false, c.value);
        } else {
            want[i] = (true, c.is_quoted || escaped, c.value);
        }
        i += 1;
    }
    apply_escapes(&mut chars);
    let mut it = to_pattern_chars(&chars);
    let mut i = 0;
    while i < N {
        if want[i].0 {
            let got = it.next();
            let exp = if want[i].1 { PatternChar::Literal(want[i].2) } else { PatternChar::Normal(want[i].2) };
            assert!(got == Some(exp), "C04 pattern character: quoted/escaped => Literal, else Normal");
        }
        i += 1;
    }
    assert!(it.next().is_none(), "C04 quoting characters and escaping backslashes are dropped");
    if N >= 2 {
        kani::cover!(want[1].0 && want[1].1 && !input[1].is_quoted, "backslash escape makes a character literal");
    }
    if N >= 3 {
        kani::cover!(input[0].value == '\\' && input[1].value == '\\' && want[2].0 && !want[2].1 && !input[0].is_quoted && !input[0].is_quoting && !input[1].is_quoted && !input[1].is_quoting,
            "escaped backslash does not escape");
    }
}

macro_rules! h {
    ($name:ident, $n:literal) => {
        #[kani::proof]
        #[kani::unwind(7)]
        fn $name() {
            check::<$n>();
            kani::cover!(true, "reached");
        }
    };
}
h!(c04_escapes_0, 0);
h!(c04_escapes_1, 1);
h!(c04_escapes_2, 2);
h!(c04_escapes_3, 3);
h!(c04_escapes_4, 4);
h!(c04_escapes_5, 5);
