// C03 — in-crate Kani harness for yash-arith/src/ast.rs: the operator tables against the
// ISO C 6.5 table.

use super::*;
use crate::token::Operator;

const OPS: [Operator; 37] = [
    Operator::Question, Operator::Colon, Operator::Bar, Operator::BarBar, Operator::BarEqual,
    Operator::Caret, Operator::CaretEqual, Operator::And, Operator::AndAnd, Operator::AndEqual,
    Operator::Equal, Operator::EqualEqual, Operator::Bang, Operator::BangEqual, Operator::Less,
    Operator::LessEqual, Operator::LessLess, Operator::LessLessEqual, Operator::Greater,
    Operator::GreaterEqual, Operator::GreaterGreater, Operator::GreaterGreaterEqual, Operator::Plus,
    Operator::PlusPlus, Operator::PlusEqual, Operator::Minus, Operator::MinusMinus, Operator::MinusEqual,
    Operator::Asterisk, Operator::AsteriskEqual, Operator::Slash, Operator::SlashEqual, Operator::Percent,
    Operator::PercentEqual, Operator::Tilde, Operator::OpenParen, Operator::CloseParen,
];

fn any_op() -> Operator {
    let i: usize = kani::any();
    kani::assume(i < 37);
    OPS[i]
}

/// ISO C 6.5 precedence level of a binary operator token (higher binds tighter), and
/// whether it is right-associative; None if the token is not a binary operator.
/// 1 assignment (right) < 3 || < 4 && < 5 | < 6 ^ < 7 & < 8 == != < 9 relational
/// < 10 shift < 11 additive < 12 multiplicative.   (?: is level 2, right-associative.)
fn c_binary(op: Operator) -> Option<(u8, bool, BinaryOperator)> {
    use BinaryOperator as B;
    use Operator as O;
    Some(match op {
        O::Equal => (1, true, B::Assign),
        O::BarEqual => (1, true, B::BitwiseOrAssign),
        O::CaretEqual => (1, true, B::BitwiseXorAssign),
        O::AndEqual => (1, true, B::BitwiseAndAssign),
        O::LessLessEqual => (1, true, B::ShiftLeftAssign),
        O::GreaterGreaterEqual => (1, true, B::ShiftRightAssign),
        O::PlusEqual => (1, true, B::AddAssign),
        O::MinusEqual => (1, true, B::SubtractAssign),
        O::AsteriskEqual => (1, true, B::MultiplyAssign),
        O::SlashEqual => (1, true, B::DivideAssign),
        O::PercentEqual => (1, true, B::RemainderAssign),
        O::BarBar => (3, false, B::LogicalOr),
        O::AndAnd => (4, false, B::LogicalAnd),
        O::Bar => (5, false, B::BitwiseOr),
        O::Caret => (6, false, B::BitwiseXor),
        O::And => (7, false, B::BitwiseAnd),
        O::EqualEqual => (8, false, B::EqualTo),
        O::BangEqual => (8, false, B::NotEqualTo),
        O::Less => (9, false, B::LessThan),
        O::LessEqual => (9, false, B::LessThanOrEqualTo),
        O::Greater => (9, false, B::GreaterThan),
        O::GreaterEqual => (9, false, B::GreaterThanOrEqualTo),
        O::LessLess => (10, false, B::ShiftLeft),
        O::GreaterGreater => (10, false, B::ShiftRight),
        O::Plus => (11, false, B::Add),
        O::Minus => (11, false, B::Subtract),
        O::Asterisk => (12, false, B::Multiply),
        O::Slash => (12, false, B::Divide),
        O::Percent => (12, false, B::Remainder),
        _ => return None,
    })
}

/// Bound: every pair of the 37 operator tokens.
#[kani::proof]
#[kani::unwind(4)]
fn c03_operator_tables() {
    let a = any_op();
    let b = any_op();
    match (c_binary(a), a.as_binary()) {
        (Some((_, right, bop)), Some((got, assoc))) => {
            assert!(got == bop, "C03 token denotes the C operator");
            assert!((assoc == Associativity::Right) == right, "C03 associativity (only assignments are right-associative)");
        }
        (None, None) => {}
        _ => panic!("C03 binary-operator table has a missing or extra row"),
    }
    if let (Some((la, _, _)), Some((lb, _, _))) = (c_binary(a), c_binary(b)) {
        assert!((la < lb) == (a.precedence() < b.precedence()), "C03 relative precedence follows ISO C 6.5");
        assert!((la == lb) == (a.precedence() == b.precedence()), "C03 operators of one C level share a precedence");
        // ?: sits between assignment and ||
        let q = Operator::Question.precedence();
        assert!((la <= 1) == (a.precedence() < q) && (la >= 3) == (a.precedence() > q), "C03 ?: level");
    }
    // terminators never continue an expression; unary/primary tokens bind tightest
    if let Some((_, _, _)) = c_binary(a) {
        assert!(a.precedence() > Operator::CloseParen.precedence() && a.precedence() > Operator::Colon.precedence(),
            "C03 ) and : end every operand");
        assert!(a.precedence() < Operator::Tilde.precedence(), "C03 unary operators bind tighter than binary ones");
    }
    use Operator as O;
    let pre = match a {
        O::PlusPlus => Some(PrefixOperator::Increment),
        O::MinusMinus => Some(PrefixOperator::Decrement),
        O::Plus => Some(PrefixOperator::NumericCoercion),
        O::Minus => Some(PrefixOperator::NumericNegation),
        O::Bang => Some(PrefixOperator::LogicalNegation),
        O::Tilde => Some(PrefixOperator::BitwiseNegation),
        _ => None,
    };
    assert!(a.as_prefix() == pre, "C03 prefix-operator table");
    let post = match a {
        O::PlusPlus => Some(PostfixOperator::Increment),
        O::MinusMinus => Some(PostfixOperator::Decrement),
        _ => None,
    };
    assert!(a.as_postfix() == post, "C03 postfix-operator table");
    kani::cover!(c_binary(a).is_some() && c_binary(b).is_some() && a.precedence() == b.precedence() && a != b, "two operators of one level");
}

// NOTE (measured, see DESIGN.md section 0): harnesses that drove the REAL parser (parse_tree /
// parse_leaf / parse_binary_rhs) with a stubbed token queue and symbolic operator tokens were
// written and abandoned: CBMC merges the branches of the recursive descent, the number of
// consumed tokens becomes symbolic, and every recursion is unwound to the bound in every
// branch (15 min of symbolic execution at 4-7 GB without reaching the solver, even for a
// single token). The parser's use of the tables is therefore outside the claim.
