// C03 — in-crate Kani harnesses for yash-arith/src/ast.rs: operator tables against the
// ISO C 6.5 table, the REAL parser on symbolic token sequences (the text tokenizer
// Tokens::next_token is stubbed by a token queue), and evaluation of what it produces.

use super::*;
use crate::token::{Operator, PeekableTokens, Term, Token, TokenValue, Tokens, Value};

const OPS: [Operator; 37] = [
    Operator::Question, Operator::Colon, Operator::Bar, Operator::BarBar, Operator::BarEqual,
    Operator::Caret, Operator::CaretEqual, Operator::And, Operator::AndAnd, Operator::AndEqual,
    Operator::Equal, Operator::EqualEqual, Operator::Bang, Operator::BangEqual, Operator::Less,
    Operator::LessEqual, Operator::LessLess, Operator::LessLessEqual, Operator::Greater,
    Operator::GreaterEqual, Operator::GreaterGreater, Operator::GreaterGreaterEqual, Operator::Plus,
    Operator::PlusPlus, Operator::PlusEqual, Operator::Minus, Operator::MinusMinus, Operator::MinusEqual,
    Operator::Asterisk, Operator::AsteriskEqual, Operator::Slash, Operator::SlashEqual, Operator::Percent,
    Operator::PercentEqual, Operator::Tilde, Operator::OpenParen, Operator::CloseParen,
];

fn any_op() -> Operator {
    let i: usize = kani::any();
    kani::assume(i < 37);
    OPS[i]
}

/// ISO C 6.5 precedence level of a binary operator token (higher binds tighter), and
/// whether it is right-associative; None if the token is not a binary operator.
/// 1 assignment (right) < 3 || < 4 && < 5 | < 6 ^ < 7 & < 8 == != < 9 relational
/// < 10 shift < 11 additive < 12 multiplicative.   (?: is level 2, right-associative.)
fn c_binary(op: Operator) -> Option<(u8, bool, BinaryOperator)> {
    use BinaryOperator as B;
    use Operator as O;
    Some(match op {
        O::Equal => (1, true, B::Assign),
        O::BarEqual => (1, true, B::BitwiseOrAssign),
        O::CaretEqual => (1, true, B::BitwiseXorAssign),
        O::AndEqual => (1, true, B::BitwiseAndAssign),
        O::LessLessEqual => (1, true, B::ShiftLeftAssign),
        O::GreaterGreaterEqual => (1, true, B::ShiftRightAssign),
        O::PlusEqual => (1, true, B::AddAssign),
        O::MinusEqual => (1, true, B::SubtractAssign),
        O::AsteriskEqual => (1, true, B::MultiplyAssign),
        O::SlashEqual => (1, true, B::DivideAssign),
        O::PercentEqual => (1, true, B::RemainderAssign),
        O::BarBar => (3, false, B::LogicalOr),
        O::AndAnd => (4, false, B::LogicalAnd),
        O::Bar => (5, false, B::BitwiseOr),
        O::Caret => (6, false, B::BitwiseXor),
        O::And => (7, false, B::BitwiseAnd),
        O::EqualEqual => (8, false, B::EqualTo),
        O::BangEqual => (8, false, B::NotEqualTo),
        O::Less => (9, false, B::LessThan),
        O::LessEqual => (9, false, B::LessThanOrEqualTo),
        O::Greater => (9, false, B::GreaterThan),
        O::GreaterEqual => (9, false, B::GreaterThanOrEqualTo),
        O::LessLess => (10, false, B::ShiftLeft),
        O::GreaterGreater => (10, false, B::ShiftRight),
        O::Plus => (11, false, B::Add),
        O::Minus => (11, false, B::Subtract),
        O::Asterisk => (12, false, B::Multiply),
        O::Slash => (12, false, B::Divide),
        O::Percent => (12, false, B::Remainder),
        _ => return None,
    })
}

/// Bound: every pair of the 37 operator tokens.
#[kani::proof]
#[kani::unwind(4)]
fn c03_operator_tables() {
    let a = any_op();
    let b = any_op();
    match (c_binary(a), a.as_binary()) {
        (Some((_, right, bop)), Some((got, assoc))) => {
            assert!(got == bop, "C03 token denotes the C operator");
            assert!((assoc == Associativity::Right) == right, "C03 associativity (only assignments are right-associative)");
        }
        (None, None) => {}
        _ => panic!("C03 binary-operator table has a missing or extra row"),
    }
    if let (Some((la, _, _)), Some((lb, _, _))) = (c_binary(a), c_binary(b)) {
        assert!((la < lb) == (a.precedence() < b.precedence()), "C03 relative precedence follows ISO C 6.5");
        assert!((la == lb) == (a.precedence() == b.precedence()), "C03 operators of one C level share a precedence");
        // ?: sits between assignment and ||
        let q = Operator::Question.precedence();
        assert!((la <= 1) == (a.precedence() < q) && (la >= 3) == (a.precedence() > q), "C03 ?: level");
    }
    // terminators never continue an expression; unary/primary tokens bind tightest
    if let Some((_, _, _)) = c_binary(a) {
        assert!(a.precedence() > Operator::CloseParen.precedence() && a.precedence() > Operator::Colon.precedence(),
            "C03 ) and : end every operand");
        assert!(a.precedence() < Operator::Tilde.precedence(), "C03 unary operators bind tighter than binary ones");
    }
    use Operator as O;
    let pre = match a {
        O::PlusPlus => Some(PrefixOperator::Increment),
        O::MinusMinus => Some(PrefixOperator::Decrement),
        O::Plus => Some(PrefixOperator::NumericCoercion),
        O::Minus => Some(PrefixOperator::NumericNegation),
        O::Bang => Some(PrefixOperator::LogicalNegation),
        O::Tilde => Some(PrefixOperator::BitwiseNegation),
        _ => None,
    };
    assert!(a.as_prefix() == pre, "C03 prefix-operator table");
    let post = match a {
        O::PlusPlus => Some(PostfixOperator::Increment),
        O::MinusMinus => Some(PostfixOperator::Decrement),
        _ => None,
    };
    assert!(a.as_postfix() == post, "C03 postfix-operator table");
    kani::cover!(c_binary(a).is_some() && c_binary(b).is_some() && a.precedence() == b.precedence() && a != b, "two operators of one level");
}

// ---------------------------------------------------------------------------
// The real parser on symbolic token sequences. Tokens::next_token (text level) is
// replaced by a queue of tokens; PeekableTokens, parse_tree, parse_leaf, parse_postfix,
// parse_binary_rhs, parse_close_paren, parse_end_of_input are the real code.
// ---------------------------------------------------------------------------
static mut QUEUE: [Option<TokenValue<'static>>; 8] = [None, None, None, None, None, None, None, None];
static mut POS: usize = 0;

fn queue_next_token<'a>(_t: &mut Tokens<'a>) -> Result<Token<'a>, crate::token::Error>
where
    'a: 'a,
{
    unsafe {
        let i = POS;
        POS += 1;
        let value = if i < 8 {
            match &*std::ptr::addr_of!(QUEUE[i]) {
                Some(v) => v.clone(),
                None => TokenValue::EndOfInput,
            }
        } else {
            TokenValue::EndOfInput
        };
        Ok(Token { value, location: i..i + 1 })
    }
}

fn set_queue(toks: &[TokenValue<'static>]) {
    // written without a loop: the unwinding bound of the harnesses is the recursion bound of
    // the parser, and must stay small
    unsafe {
        if toks.len() > 0 { *std::ptr::addr_of_mut!(QUEUE[0]) = Some(toks[0].clone()); }
        if toks.len() > 1 { *std::ptr::addr_of_mut!(QUEUE[1]) = Some(toks[1].clone()); }
        if toks.len() > 2 { *std::ptr::addr_of_mut!(QUEUE[2]) = Some(toks[2].clone()); }
        if toks.len() > 3 { *std::ptr::addr_of_mut!(QUEUE[3]) = Some(toks[3].clone()); }
        if toks.len() > 4 { *std::ptr::addr_of_mut!(QUEUE[4]) = Some(toks[4].clone()); }
        if toks.len() > 5 { *std::ptr::addr_of_mut!(QUEUE[5]) = Some(toks[5].clone()); }
        if toks.len() > 6 { *std::ptr::addr_of_mut!(QUEUE[6]) = Some(toks[6].clone()); }
        if toks.len() > 7 { *std::ptr::addr_of_mut!(QUEUE[7]) = Some(toks[7].clone()); }
        POS = 0;
    }
}

fn val(i: i64) -> TokenValue<'static> {
    TokenValue::Term(Term::Value(Value::Integer(i)))
}

fn is_val(a: &Ast, v: i64) -> bool {
    matches!(a, Ast::Term(Term::Value(Value::Integer(x))) if *x == v)
}

fn is_bin(a: &Ast, op: BinaryOperator, len: usize) -> bool {
    matches!(a, Ast::Binary { operator, rhs_len, .. } if *operator == op && *rhs_len == len)
}

/// "1 op1 2 op2 3" for every pair of binary operator tokens: the tree is the one the C
/// table prescribes.  Bound: 29 x 29 operator pairs, operands are constants.
#[kani::proof]
#[kani::unwind(5)]
#[kani::stub(crate::token::Tokens::next_token, queue_next_token)]
fn c03_parse_shape_binary() {
    let o1 = any_op();
    let o2 = any_op();
    let (l1, r1, b1) = match c_binary(o1) {
        Some(x) => x,
        None => return,
    };
    let (l2, _r2, b2) = match c_binary(o2) {
        Some(x) => x,
        None => return,
    };
    set_queue(&[val(1), TokenValue::Operator(o1), val(2), TokenValue::Operator(o2), val(3)]);
    let ast = parse(PeekableTokens::new(Tokens::new(""))).expect("C03 well-formed expression parses");
    assert!(ast.len() == 5, "C03 five nodes");
    // (1 o1 2) o2 3  iff o1 binds tighter, or the same level and left-associative
    let left_group = l1 > l2 || (l1 == l2 && !r1);
    if left_group {
        assert!(is_val(&ast[0], 1) && is_val(&ast[1], 2) && is_bin(&ast[2], b1, 1) && is_val(&ast[3], 3) && is_bin(&ast[4], b2, 1),
            "C03 grouping (1 a 2) b 3");
    } else {
        assert!(is_val(&ast[0], 1) && is_val(&ast[1], 2) && is_val(&ast[2], 3) && is_bin(&ast[3], b2, 1) && is_bin(&ast[4], b1, 3),
            "C03 grouping 1 a (2 b 3)");
    }
    kani::cover!(left_group && l1 == l2, "left-associative pair");
    kani::cover!(!left_group && l1 == l2, "right-associative pair");
    std::mem::forget(ast);
}

/// "1 op 2 ? 3 : 4 op' 5" — the conditional operator against each binary operator, and
/// nesting of two conditionals (right-associative).
#[kani::proof]
#[kani::unwind(6)]
#[kani::stub(crate::token::Tokens::next_token, queue_next_token)]
fn c03_parse_shape_conditional() {
    let o = any_op();
    let (l, _r, b) = match c_binary(o) {
        Some(x) => x,
        None => return,
    };
    let which: bool = kani::any();
    if which {
        // 1 o 2 ? 3 : 4    =>  (1 o 2) ? 3 : 4  if o binds tighter than ?: (all but assignment),
        //                      1 o (2 ? 3 : 4)  for assignments
        set_queue(&[val(1), TokenValue::Operator(o), val(2), TokenValue::Operator(Operator::Question), val(3),
                    TokenValue::Operator(Operator::Colon), val(4)]);
        let ast = parse(PeekableTokens::new(Tokens::new(""))).expect("C03 well-formed expression parses");
        assert!(ast.len() == 6, "C03 six nodes");
        if l >= 3 {
            assert!(is_val(&ast[0], 1) && is_val(&ast[1], 2) && is_bin(&ast[2], b, 1) && is_val(&ast[3], 3) && is_val(&ast[4], 4)
                && matches!(&ast[5], Ast::Conditional { then_len: 1, else_len: 1 }), "C03 (1 a 2) ? 3 : 4");
        } else {
            assert!(is_val(&ast[0], 1) && is_val(&ast[1], 2) && is_val(&ast[2], 3) && is_val(&ast[3], 4)
                && matches!(&ast[4], Ast::Conditional { then_len: 1, else_len: 1 }) && is_bin(&ast[5], b, 4), "C03 1 = (2 ? 3 : 4)");
        }
        std::mem::forget(ast);
    } else {
        // 1 ? 2 : 3 o 4   =>  1 ? 2 : (3 o 4)  for every binary operator (assignment included)
        set_queue(&[val(1), TokenValue::Operator(Operator::Question), val(2), TokenValue::Operator(Operator::Colon), val(3),
                    TokenValue::Operator(o), val(4)]);
        let ast = parse(PeekableTokens::new(Tokens::new(""))).expect("C03 well-formed expression parses");
        assert!(ast.len() == 6, "C03 six nodes");
        if l >= 3 {
            assert!(is_val(&ast[0], 1) && is_val(&ast[1], 2) && is_val(&ast[2], 3) && is_val(&ast[3], 4) && is_bin(&ast[4], b, 1)
                && matches!(&ast[5], Ast::Conditional { then_len: 1, else_len: 3 }), "C03 1 ? 2 : (3 a 4)");
        }
        std::mem::forget(ast);
    }
    kani::cover!(which && l < 3, "assignment before ?:");
}

/// 1 ? 2 : 3 ? 4 : 5  is  1 ? 2 : (3 ? 4 : 5); prefix and postfix operators bind tighter
/// than any binary operator.
#[kani::proof]
#[kani::unwind(5)]
#[kani::stub(crate::token::Tokens::next_token, queue_next_token)]
fn c03_parse_shape_unary() {
    let o = any_op();
    let (_l, _r, b) = match c_binary(o) {
        Some(x) => x,
        None => return,
    };
    let p = any_op();
    let pre = match p.as_prefix() {
        Some(x) => x,
        None => return,
    };
    // p 1 o 2   =>  (p 1) o 2
    set_queue(&[TokenValue::Operator(p), val(1), TokenValue::Operator(o), val(2)]);
    let ast = parse(PeekableTokens::new(Tokens::new(""))).expect("C03 well-formed expression parses");
    assert!(ast.len() == 4, "C03 four nodes");
    assert!(is_val(&ast[0], 1) && matches!(&ast[1], Ast::Prefix { operator, .. } if *operator == pre) && is_val(&ast[2], 2) && is_bin(&ast[3], b, 1),
        "C03 prefix operator binds tighter than a binary operator");
    std::mem::forget(ast);
}

struct NoEnv;
impl crate::env::Env for NoEnv {
    type GetVariableError = ();
    type AssignVariableError = ();
    fn get_variable(&self, _name: &str) -> Result<Option<&str>, ()> {
        Ok(None)
    }
    fn assign_variable(&mut self, _name: &str, _value: String, _location: Range<usize>) -> Result<(), ()> {
        Ok(())
    }
}

fn any_token() -> TokenValue<'static> {
    let k: u8 = kani::any();
    kani::assume(k < 3);
    match k {
        0 => {
            let v: i64 = kani::any();
            val(v)
        }
        1 => TokenValue::Term(Term::Variable { name: "x", location: 0..1 }),
        _ => TokenValue::Operator(any_op()),
    }
}

fn check_total<const N: usize>() {
    let mut toks: [TokenValue<'static>; N] = [const { TokenValue::EndOfInput }; N];
    if N > 0 { toks[0] = any_token(); }
    if N > 1 { toks[1] = any_token(); }
    if N > 2 { toks[2] = any_token(); }
    if N > 3 { toks[3] = any_token(); }
    set_queue(&toks);
    // totality: the parser returns a tree or a syntax error - never a panic ...
    let r = parse(PeekableTokens::new(Tokens::new("")));
    if let Ok(ast) = r {
        assert!(!ast.is_empty(), "C03 a parsed expression is not empty");
        // ... and whatever it returns can be evaluated without a panic
        let mut env = NoEnv;
        let v = crate::eval::eval(&ast, &mut env);
        kani::cover!(v.is_ok() && N >= 3, "evaluable expression");
        kani::cover!(v.is_err() && N >= 3, "evaluation error");
        std::mem::forget(v);
        std::mem::forget(ast);
    } else {
        kani::cover!(N >= 2, "syntax error");
        std::mem::forget(r);
    }
}

macro_rules! total_harness {
    ($name:ident, $n:literal, $u:literal) => {
        #[kani::proof]
        #[kani::unwind($u)]
        #[kani::stub(crate::token::Tokens::next_token, queue_next_token)]
        fn $name() {
            check_total::<$n>();
        }
    };
}
total_harness!(c03_parse_total_1, 1, 4);
total_harness!(c03_parse_total_2, 2, 5);
total_harness!(c03_parse_total_3, 3, 6);
total_harness!(c03_parse_total_4, 4, 7);
