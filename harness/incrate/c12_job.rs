// C12 — inductive-step harnesses for yash_env::job::JobList (injected under job.rs,
// with T1: HashMap -> association list). One operation from an ARBITRARY table that
// satisfies the representation invariant I (the five statements of the property);
// post-condition: I again + the documented effect of the operation.
//
// Shape split: slot occupancy (and the slab's free-list order) is arm-concrete; job
// states, flags, current/previous indices and all operation arguments are symbolic.

use super::*;
use crate::semantics::ExitStatus;
use std::num::NonZero;

const N: usize = 3; // slots in the table (bound)

fn any_state() -> ProcessState {
    let k: u8 = kani::any();
    kani::assume(k < 4);
    match k {
        0 => ProcessState::Running,
        1 => {
            let s: i32 = kani::any();
            kani::assume(s > 0 && s < 65);
            ProcessState::stopped(signal::Number::from_raw_unchecked(NonZero::new(s).unwrap()))
        }
        2 => {
            let e: i32 = kani::any();
            kani::assume(e >= 0 && e < 256);
            ProcessState::exited(ExitStatus(e))
        }
        _ => {
            let s: i32 = kani::any();
            kani::assume(s > 0 && s < 65);
            ProcessState::Halted(ProcessResult::Signaled {
                signal: signal::Number::from_raw_unchecked(NonZero::new(s).unwrap()),
                core_dump: kani::any(),
            })
        }
    }
}

fn any_job(pid: Pid) -> Job {
    let mut j = Job::new(pid);
    j.job_controlled = kani::any();
    j.state = any_state();
    j.expected_state = if kani::any() { Some(any_state()) } else { None };
    j.state_changed = kani::any();
    j.is_owned = kani::any();
    j
}

fn pid_of(slot: usize) -> Pid {
    Pid(10 + slot as RawPid)
}

/// Table with the occupancy `mask` (bit i = slot i occupied); vacated slots are removed in
/// ascending or descending order (`rev`), which fixes the slab's free-list order.
fn table(mask: u8, rev: bool) -> JobList {
    let mut jobs = Slab::new();
    let mut map = HashMap::new();
    let mut s = 0;
    while s < N {
        jobs.insert(any_job(pid_of(s)));
        s += 1;
    }
    let mut k = 0;
    while k < N {
        let s = if rev { N - 1 - k } else { k };
        if mask & (1 << s) == 0 {
            jobs.remove(s);
        } else {
            map.insert(pid_of(s), s);
        }
        k += 1;
    }
    let cur: usize = kani::any();
    let prev: usize = kani::any();
    kani::assume(cur <= N && prev <= N);
    let pid: RawPid = kani::any();
    JobList {
        jobs,
        pids_to_indices: map,
        current_job_index: cur,
        previous_job_index: prev,
        last_async_pid: Pid(pid),
    }
}

fn susp(l: &JobList, i: usize) -> bool {
    match l.jobs.get(i) {
        Some(j) => matches!(j.state, ProcessState::Halted(ProcessResult::Stopped(_))),
        None => false,
    }
}

/// Representation invariant I, written against the private fields (not via the
/// accessors under test).
fn inv(l: &JobList) -> bool {
    let mut count = 0;
    let mut nsusp = 0;
    let mut i = 0;
    let mut ok = true;
    while i < N + 2 {
        if let Some(j) = l.jobs.get(i) {
            count += 1;
            if susp(l, i) {
                nsusp += 1;
            }
            // pid index: this job's pid maps to this index
            ok &= l.pids_to_indices.get(&j.pid) == Some(&i);
        }
        i += 1;
    }
    ok &= l.jobs.len() == count;
    ok &= l.pids_to_indices.len() == count;
    let cur = l.current_job_index;
    let prev = l.previous_job_index;
    let cur_ok = l.jobs.contains(cur);
    let prev_ok = l.jobs.contains(prev) && prev != cur;
    if count >= 1 {
        ok &= cur_ok;
    }
    if count >= 2 {
        ok &= prev_ok;
    }
    if nsusp >= 1 {
        ok &= susp(l, cur);
    }
    if nsusp >= 2 {
        ok &= prev_ok && susp(l, prev);
    }
    ok
}

#[derive(Clone, Copy)]
struct Snap {
    present: bool,
    pid: Pid,
    state: ProcessState,
    expected: Option<ProcessState>,
    changed: bool,
    owned: bool,
    jc: bool,
}

fn snap(l: &JobList) -> [Snap; N + 1] {
    let mut a = [Snap {
        present: false,
        pid: Pid(0),
        state: ProcessState::Running,
        expected: None,
        changed: false,
        owned: false,
        jc: false,
    }; N + 1];
    let mut i = 0;
    while i < N + 1 {
        if let Some(j) = l.jobs.get(i) {
            a[i] = Snap {
                present: true,
                pid: j.pid,
                state: j.state,
                expected: j.expected_state,
                changed: j.state_changed,
                owned: j.is_owned,
                jc: j.job_controlled,
            };
        }
        i += 1;
    }
    a
}

fn same(a: &Snap, b: &Snap) -> bool {
    a.present == b.present
        && (!a.present
            || (a.pid == b.pid
                && a.state == b.state
                && a.expected == b.expected
                && a.changed == b.changed
                && a.owned == b.owned
                && a.jc == b.jc))
}

fn is_susp(s: &ProcessState) -> bool {
    matches!(s, ProcessState::Halted(ProcessResult::Stopped(_)))
}

// ---------------------------------------------------------------------------

fn step_update_status(mask: u8, rev: bool) {
    let mut l = table(mask, rev);
    kani::assume(inv(&l));
    let before = snap(&l);
    let (cur0, prev0) = (l.current_job(), l.previous_job());
    let slot: usize = kani::any();
    kani::assume(slot <= N); // slot N: a pid that is in no job
    let st = any_state();
    let r = l.update_status(pid_of(slot), st);
    let after = snap(&l);
    assert!(inv(&l), "C12 invariant after update_status");
    let existed = slot < N && before[slot].present;
    assert!(r == if existed { Some(slot) } else { None }, "C12 update_status result");
    let mut i = 0;
    while i < N + 1 {
        if !(existed && i == slot) {
            assert!(same(&before[i], &after[i]), "C12 update_status leaves other jobs alone");
        }
        i += 1;
    }
    if existed {
        let a = &after[slot];
        assert!(a.present && a.pid == before[slot].pid, "C12 job keeps index and pid");
        assert!(a.state == st, "C12 state updated");
        assert!(a.expected.is_none(), "C12 expected_state cleared");
        let exp_changed = before[slot].changed || before[slot].expected != Some(st);
        assert!(a.changed == exp_changed, "C12 state_changed flag");
        let was = is_susp(&before[slot].state);
        let now = is_susp(&st);
        if !was && now {
            // newly suspended job becomes current; the old current becomes previous
            assert!(l.current_job() == Some(slot), "C12 newly suspended job is current");
            if cur0 != Some(slot) {
                assert!(l.previous_job() == cur0, "C12 old current becomes previous");
            }
        }
        if was && !now && cur0 == Some(slot) {
            if let Some(p) = prev0 {
                if is_susp(&before[p].state) {
                    assert!(l.current_job() == Some(p), "C12 suspended previous job promoted");
                }
            }
        }
        if was == now {
            assert!(l.current_job() == cur0 && l.previous_job() == prev0, "C12 no reselection");
        }
        if was && !now && prev0 == Some(slot) {
            // the previous job left the suspended state: it is replaced only by ANOTHER SUSPENDED job
            // (other than the current one); otherwise it stays the previous job
            let mut other_susp = false;
            let mut k = 0;
            while k < N {
                other_susp |= k != slot && Some(k) != cur0 && before[k].present && is_susp(&before[k].state);
                k += 1;
            }
            match l.previous_job() {
                Some(p) if p != slot => assert!(other_susp && is_susp(&before[p].state), "C12 previous job is only replaced by a suspended job"),
                Some(_) => assert!(!other_susp, "C12 a suspended job takes over as previous job"),
                None => panic!("C12 previous job lost"),
            }
            assert!(l.current_job() == cur0, "C12 current job unchanged when the previous job resumes");
        }
        kani::cover!(!was && now && cur0 != Some(slot) && cur0.is_some(), "suspend a non-current job");
        kani::cover!(was && !now && cur0 == Some(slot) && prev0.is_some(), "resume the current job");
    }
    kani::cover!(true, "each: step completed");
    std::mem::forget(l);
}

fn step_remove(mask: u8, rev: bool) {
    let mut l = table(mask, rev);
    kani::assume(inv(&l));
    let before = snap(&l);
    let (cur0, prev0) = (l.current_job(), l.previous_job());
    let idx: usize = kani::any();
    kani::assume(idx <= N);
    let r = l.remove(idx);
    let after = snap(&l);
    assert!(inv(&l), "C12 invariant after remove");
    let existed = before[idx].present;
    assert!(r.is_some() == existed, "C12 remove result");
    if let Some(j) = &r {
        assert!(j.pid == before[idx].pid && j.state == before[idx].state, "C12 removed job returned");
        assert!(l.find_by_pid(j.pid).is_none(), "C12 pid no longer designates a job");
    }
    let mut i = 0;
    while i < N + 1 {
        if i != idx {
            assert!(same(&before[i], &after[i]), "C12 remove leaves other jobs alone");
        } else {
            assert!(!after[i].present, "C12 removed slot is vacant");
        }
        i += 1;
    }
    if existed {
        if cur0 == Some(idx) {
            if prev0.is_some() {
                assert!(l.current_job() == prev0, "C12 previous job becomes current");
            }
        } else {
            assert!(l.current_job() == cur0, "C12 current job unchanged");
            if prev0 != Some(idx) {
                assert!(l.previous_job() == prev0, "C12 previous job unchanged");
            }
        }
        kani::cover!(cur0 == Some(idx) && prev0.is_some(), "remove the current job");
        kani::cover!(prev0 == Some(idx), "remove the previous job");
    } else {
        assert!(l.current_job() == cur0 && l.previous_job() == prev0, "C12 no-op remove");
    }
    kani::cover!(true, "each: step completed");
    std::mem::forget(l);
    std::mem::forget(r);
}

fn step_insert(mask: u8, rev: bool) {
    let mut l = table(mask, rev);
    kani::assume(inv(&l));
    let before = snap(&l);
    let (cur0, prev0) = (l.current_job(), l.previous_job());
    // fresh pid, or the pid of an existing job that has finished (pid reuse)
    let slot: usize = kani::any();
    kani::assume(slot <= N);
    let reuse = slot < N && before[slot].present;
    if reuse {
        kani::assume(!matches!(before[slot].state, ProcessState::Running) && !is_susp(&before[slot].state));
    }
    let pid = if reuse { pid_of(slot) } else { Pid(99) };
    let job = any_job(pid);
    let st = job.state;
    let (jc, ow, ch, ex) = (job.job_controlled, job.is_owned, job.state_changed, job.expected_state);
    let idx = l.insert(job);
    let after = snap(&l);
    assert!(inv(&l), "C12 invariant after insert");
    assert!(idx <= N, "C12 insert index within the table");
    if reuse {
        assert!(idx == slot, "C12 pid reuse replaces the finished job in place");
    } else {
        assert!(!before[idx].present, "C12 insert uses a vacant index");
    }
    let mut i = 0;
    while i < N + 1 {
        if i != idx {
            assert!(same(&before[i], &after[i]), "C12 insert leaves other jobs alone");
        }
        i += 1;
    }
    let a = &after[idx];
    assert!(a.present && a.pid == pid && a.state == st && a.jc == jc && a.owned == ow && a.changed == ch && a.expected == ex,
        "C12 inserted job stored");
    assert!(l.find_by_pid(pid) == Some(idx), "C12 pid designates the new job");
    let new_susp = is_susp(&st);
    if !reuse {
        if let Some(c) = cur0 {
            let cur_susp = is_susp(&before[c].state);
            if new_susp && !cur_susp {
                assert!(l.current_job() == Some(idx), "C12 suspended new job becomes current");
                assert!(l.previous_job() == Some(c), "C12 old current becomes previous");
            } else {
                assert!(l.current_job() == Some(c), "C12 current job kept");
                match prev0 {
                    Some(p) => {
                        if new_susp && !is_susp(&before[p].state) {
                            assert!(l.previous_job() == Some(idx), "C12 suspended new job becomes previous");
                        } else {
                            assert!(l.previous_job() == Some(p), "C12 previous job kept");
                        }
                    }
                    None => assert!(l.previous_job() == Some(idx), "C12 second job becomes previous"),
                }
            }
        } else {
            assert!(l.current_job() == Some(idx), "C12 first job becomes current");
        }
    }
    kani::cover!(reuse, "pid reuse");
    kani::cover!(!reuse && new_susp && cur0.is_some(), "insert a suspended job into a non-empty table");
    kani::cover!(true, "each: step completed");
    std::mem::forget(l);
}

fn step_set_current(mask: u8, rev: bool) {
    let mut l = table(mask, rev);
    kani::assume(inv(&l));
    let before = snap(&l);
    let (cur0, prev0) = (l.current_job(), l.previous_job());
    let idx: usize = kani::any();
    kani::assume(idx <= N);
    let r = l.set_current_job(idx);
    let after = snap(&l);
    assert!(inv(&l), "C12 invariant after set_current_job");
    let mut i = 0;
    let mut any_susp = false;
    while i < N + 1 {
        assert!(same(&before[i], &after[i]), "C12 set_current_job leaves jobs alone");
        any_susp |= before[i].present && is_susp(&before[i].state);
        i += 1;
    }
    if !before[idx].present {
        assert!(r == Err(SetCurrentJobError::NoSuchJob), "C12 NoSuchJob");
    } else if any_susp && !is_susp(&before[idx].state) {
        assert!(r == Err(SetCurrentJobError::NotSuspended), "C12 NotSuspended");
    } else {
        assert!(r == Ok(()), "C12 set_current_job succeeds");
        assert!(l.current_job() == Some(idx), "C12 selected job is current");
        if cur0 != Some(idx) {
            assert!(l.previous_job() == cur0, "C12 old current becomes previous");
        } else {
            assert!(l.previous_job() == prev0, "C12 reselecting the current job changes nothing");
        }
    }
    if r.is_err() {
        assert!(l.current_job() == cur0 && l.previous_job() == prev0, "C12 failed selection has no effect");
    }
    kani::cover!(r == Err(SetCurrentJobError::NotSuspended), "NotSuspended reachable");
    kani::cover!(r.is_ok() && cur0 != Some(idx), "successful reselection");
    kani::cover!(true, "each: step completed");
    std::mem::forget(l);
}

/// extract_if / remove_if as an induction over the iterator: ONE `next()` from an
/// arbitrary iterator state (next_index symbolic; `len` = number of jobs not yet visited,
/// the iterator's own invariant) over an arbitrary valid table. The table invariant holds
/// after every `next()`, hence also when the iterator is dropped half-way, and a complete
/// drain removes exactly the selected jobs.
/// Contract of JobList::remove (discharged by the c12_remove_* obligations): the job at
/// `index`, if any, is taken out, its pid no longer designates a job, every other job
/// keeps its index and content, and the table invariant holds again - with current and
/// previous job chosen in ANY way the invariant allows (weaker than the real re-selection
/// rules, hence sound for callers that do not depend on them).
fn remove_contract(l: &mut JobList, index: usize) -> Option<Job> {
    let job = l.jobs.try_remove(index);
    if let Some(job) = &job {
        l.pids_to_indices.remove(&job.pid);
        l.current_job_index = kani::any();
        l.previous_job_index = kani::any();
        kani::assume(l.current_job_index <= N && l.previous_job_index <= N);
        kani::assume(inv(l));
    }
    job
}

fn step_extract_if(mask: u8, rev: bool) {
    let sel: u8 = kani::any();
    kani::assume(sel <= N as u8);
    if sel == 0 {
        step_extract_from(mask, rev, 0)
    } else if sel == 1 {
        step_extract_from(mask, rev, 1)
    } else if sel == 2 {
        step_extract_from(mask, rev, 2)
    } else if sel == 3 {
        step_extract_from(mask, rev, 3)
    } else {
        step_extract_from(mask, rev, 4)
    }
}

fn step_extract_from(mask: u8, rev: bool, start: usize) {
    let mut l = table(mask, rev);
    kani::assume(inv(&l));
    let before = snap(&l);
    let pred: u8 = kani::any();
    kani::assume(pred < (1 << N));
    // the constructor starts at index 0 with len = number of jobs
    {
        let it0 = l.extract_if(|_i, _job| false);
        assert!(it0.next_index == 0 && it0.len == (mask as u32).count_ones() as usize, "C12 extract_if starts before the first job");
    }
    let mut remaining = 0;
    let mut i = 0;
    while i < N {
        if i >= start && before[i].present {
            remaining += 1;
        }
        i += 1;
    }
    let (r, ni, ln) = {
        let mut it = ExtractIf { list: &mut l, should_remove: |i: usize, _job: JobRefMut| pred & (1 << i) != 0, next_index: start, len: remaining };
        let r = it.next();
        (r, it.next_index, it.len)
    };
    let after = snap(&l);
    assert!(inv(&l), "C12 invariant after every step of extract_if (so also when it is dropped half-way)");
    let mut first_sel = N;
    let mut i = N;
    while i > 0 {
        i -= 1;
        if i >= start && before[i].present && pred & (1 << i) != 0 {
            first_sel = i;
        }
    }
    match &r {
        Some((idx, j)) => {
            assert!(*idx == first_sel, "C12 extract_if yields the next selected job");
            assert!(j.pid == before[*idx].pid && j.state == before[*idx].state, "C12 extract_if yields the job of that index");
            assert!(ni == *idx + 1, "C12 extract_if advances past the yielded job");
        }
        None => {
            assert!(first_sel == N, "C12 extract_if ends only when no selected job is left");
            assert!(ln == 0, "C12 finished iterator has nothing left");
        }
    }
    let mut left = 0;
    let mut i = 0;
    while i < N {
        if Some(i) == r.as_ref().map(|x| x.0) {
            assert!(!after[i].present, "C12 extracted job is gone");
        } else {
            assert!(same(&before[i], &after[i]), "C12 extract_if leaves every other job alone");
        }
        if i >= ni && after[i].present {
            left += 1;
        }
        i += 1;
    }
    if r.is_some() {
        assert!(ln == left, "C12 iterator keeps counting the jobs not yet visited");
    }
    kani::cover!(r.is_some() && start > 0, "a later step yields a job");
    kani::cover!(r.is_none() && remaining > 0, "remaining jobs all unselected");
    kani::cover!(true, "each: step completed");
    std::mem::forget(l);
    std::mem::forget(r);
}

fn step_misc(mask: u8, rev: bool) {
    // disown_all, get_mut().expect/state_reported, set_last_async_pid, job-ID resolution
    let mut l = table(mask, rev);
    kani::assume(inv(&l));
    let before = snap(&l);
    let (cur0, prev0) = (l.current_job(), l.previous_job());
    // %% %+ %- %n designate what the invariant says
    use super::id::{FindError, JobId};
    assert!(JobId::CurrentJob.find(&l) == cur0.ok_or(FindError::NotFound), "C12 %+");
    assert!(JobId::PreviousJob.find(&l) == prev0.ok_or(FindError::NotFound), "C12 %-");
    let n: usize = kani::any();
    kani::assume(n >= 1 && n <= N + 1);
    let r = JobId::JobNumber(std::num::NonZeroUsize::new(n).unwrap()).find(&l);
    assert!(r == if before[n - 1].present { Ok(n - 1) } else { Err(FindError::NotFound) }, "C12 %n");
    if mask != 0 {
        assert!(cur0.is_some(), "C12 non-empty table has a current job");
    }
    let which: u8 = kani::any();
    let pid: RawPid = kani::any();
    let idx: usize = kani::any();
    kani::assume(idx <= N);
    match which % 4 {
        0 => l.disown_all(),
        1 => l.set_last_async_pid(Pid(pid)),
        2 => {
            if let Some(mut j) = l.get_mut(idx) {
                j.state_reported();
            }
        }
        _ => {
            if let Some(mut j) = l.get_mut(idx) {
                j.expect(any_state());
            }
        }
    }
    assert!(inv(&l), "C12 invariant after bookkeeping operations");
    assert!(l.current_job() == cur0 && l.previous_job() == prev0, "C12 bookkeeping does not reselect");
    if which % 4 == 1 {
        assert!(l.last_async_pid() == Pid(pid), "C12 $! is the last asynchronous pid");
    }
    let after = snap(&l);
    let mut i = 0;
    while i < N + 1 {
        assert!(after[i].present == before[i].present && (!after[i].present || (after[i].pid == before[i].pid && after[i].state == before[i].state)),
            "C12 bookkeeping keeps jobs, indices and states");
        if which % 4 == 0 && after[i].present {
            assert!(!after[i].owned, "C12 disown_all");
        }
        i += 1;
    }
    kani::cover!(true, "each: step completed");
    std::mem::forget(l);
}

macro_rules! arm {
    ($name:ident, $step:ident, $mask:expr, $rev:expr) => {
        #[kani::proof]
        #[kani::unwind(8)]
        fn $name() {
            $step($mask, $rev);
        }
    };
}

macro_rules! arm_with_remove_contract {
    ($name:ident, $step:ident, $mask:expr, $rev:expr) => {
        #[kani::proof]
        #[kani::unwind(8)]
        #[kani::stub(crate::job::JobList::remove, remove_contract)]
        fn $name() {
            $step($mask, $rev);
        }
    };
}

// One harness per (operation, occupancy mask). "r" variants build the slab free list in the
// opposite order; that only matters with two or more vacant slots (masks 0, 1, 2, 4).
// Lines marked @thorough are removed from the copy used by the quick tier: the quick tier keeps
// the tables with two or three jobs (masks 3, 5, 6, 7), which is where current/previous job
// re-selection happens (quick checks are stopped after 900 s).
arm!(c12_update_status_m0, step_update_status, 0, false); // @thorough
arm!(c12_update_status_m1, step_update_status, 1, false); // @thorough
arm!(c12_update_status_m2, step_update_status, 2, false); // @thorough
arm!(c12_update_status_m3, step_update_status, 3, false);
arm!(c12_update_status_m4, step_update_status, 4, false); // @thorough
arm!(c12_update_status_m5, step_update_status, 5, false);
arm!(c12_update_status_m6, step_update_status, 6, false);
arm!(c12_update_status_m7, step_update_status, 7, false);
arm!(c12_update_status_r0, step_update_status, 0, true); // @thorough
arm!(c12_update_status_r1, step_update_status, 1, true); // @thorough
arm!(c12_update_status_r2, step_update_status, 2, true); // @thorough
arm!(c12_update_status_r4, step_update_status, 4, true); // @thorough
arm!(c12_remove_m0, step_remove, 0, false); // @thorough
arm!(c12_remove_m1, step_remove, 1, false); // @thorough
arm!(c12_remove_m2, step_remove, 2, false); // @thorough
arm!(c12_remove_m3, step_remove, 3, false);
arm!(c12_remove_m4, step_remove, 4, false); // @thorough
arm!(c12_remove_m5, step_remove, 5, false);
arm!(c12_remove_m6, step_remove, 6, false);
arm!(c12_remove_m7, step_remove, 7, false);
arm!(c12_remove_r0, step_remove, 0, true); // @thorough
arm!(c12_remove_r1, step_remove, 1, true); // @thorough
arm!(c12_remove_r2, step_remove, 2, true); // @thorough
arm!(c12_remove_r4, step_remove, 4, true); // @thorough
arm!(c12_insert_m0, step_insert, 0, false); // @thorough
arm!(c12_insert_m1, step_insert, 1, false); // @thorough
arm!(c12_insert_m2, step_insert, 2, false); // @thorough
arm!(c12_insert_m3, step_insert, 3, false);
arm!(c12_insert_m4, step_insert, 4, false); // @thorough
arm!(c12_insert_m5, step_insert, 5, false);
arm!(c12_insert_m6, step_insert, 6, false);
arm!(c12_insert_m7, step_insert, 7, false);
arm!(c12_insert_r0, step_insert, 0, true); // @thorough
arm!(c12_insert_r1, step_insert, 1, true); // @thorough
arm!(c12_insert_r2, step_insert, 2, true); // @thorough
arm!(c12_insert_r4, step_insert, 4, true); // @thorough
arm!(c12_set_current_m0, step_set_current, 0, false); // @thorough
arm!(c12_set_current_m1, step_set_current, 1, false); // @thorough
arm!(c12_set_current_m2, step_set_current, 2, false); // @thorough
arm!(c12_set_current_m3, step_set_current, 3, false);
arm!(c12_set_current_m4, step_set_current, 4, false); // @thorough
arm!(c12_set_current_m5, step_set_current, 5, false);
arm!(c12_set_current_m6, step_set_current, 6, false);
arm!(c12_set_current_m7, step_set_current, 7, false);
arm!(c12_set_current_r0, step_set_current, 0, true); // @thorough
arm!(c12_set_current_r1, step_set_current, 1, true); // @thorough
arm!(c12_set_current_r2, step_set_current, 2, true); // @thorough
arm!(c12_set_current_r4, step_set_current, 4, true); // @thorough
arm_with_remove_contract!(c12_extract_if_m0, step_extract_if, 0, false); // @thorough
arm_with_remove_contract!(c12_extract_if_m1, step_extract_if, 1, false); // @thorough
arm_with_remove_contract!(c12_extract_if_m2, step_extract_if, 2, false); // @thorough
arm_with_remove_contract!(c12_extract_if_m3, step_extract_if, 3, false);
arm_with_remove_contract!(c12_extract_if_m4, step_extract_if, 4, false); // @thorough
arm_with_remove_contract!(c12_extract_if_m5, step_extract_if, 5, false);
arm_with_remove_contract!(c12_extract_if_m6, step_extract_if, 6, false);
arm_with_remove_contract!(c12_extract_if_m7, step_extract_if, 7, false);
arm_with_remove_contract!(c12_extract_if_r0, step_extract_if, 0, true); // @thorough
arm_with_remove_contract!(c12_extract_if_r1, step_extract_if, 1, true); // @thorough
arm_with_remove_contract!(c12_extract_if_r2, step_extract_if, 2, true); // @thorough
arm_with_remove_contract!(c12_extract_if_r4, step_extract_if, 4, true); // @thorough
arm!(c12_misc_m0, step_misc, 0, false); // @thorough
arm!(c12_misc_m1, step_misc, 1, false); // @thorough
arm!(c12_misc_m2, step_misc, 2, false); // @thorough
arm!(c12_misc_m3, step_misc, 3, false); // @thorough
arm!(c12_misc_m4, step_misc, 4, false); // @thorough
arm!(c12_misc_m5, step_misc, 5, false);
arm!(c12_misc_m6, step_misc, 6, false); // @thorough
arm!(c12_misc_m7, step_misc, 7, false);
arm!(c12_misc_r0, step_misc, 0, true); // @thorough
arm!(c12_misc_r1, step_misc, 1, true); // @thorough
arm!(c12_misc_r2, step_misc, 2, true); // @thorough
arm!(c12_misc_r4, step_misc, 4, true); // @thorough

/// Base case: the empty table satisfies I.
#[kani::proof]
#[kani::unwind(8)]
fn c12_base() {
    let l = JobList::new();
    assert!(inv(&l), "C12 empty table satisfies the invariant");
    assert!(l.current_job().is_none() && l.previous_job().is_none(), "C12 empty table has no current job");
    kani::cover!(true, "reached");
}
