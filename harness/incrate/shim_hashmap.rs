// T1 — association-list stand-in for std::collections::HashMap (snapshot transform).
// Same contract for the operations the code under test uses: get / get_mut / insert /
// remove / entry (Vacant::insert, Occupied::get/get_mut/insert/remove) / len / is_empty /
// contains_key / iter / values / keys / retain / clear. Iteration order is insertion
// order; no asserted post-condition depends on it.
#![allow(dead_code)]

#[derive(Clone, Debug)]
pub struct HashMap<K, V> {
    pub items: Vec<(K, V)>,
}

impl<K, V> Default for HashMap<K, V> {
    fn default() -> Self {
        HashMap { items: Vec::new() }
    }
}

impl<K: PartialEq, V: PartialEq> PartialEq for HashMap<K, V> {
    fn eq(&self, other: &Self) -> bool {
        self.items.len() == other.items.len()
            && self.items.iter().all(|(k, v)| other.items.iter().any(|(k2, v2)| k == k2 && v == v2))
    }
}

impl<K: Eq, V: Eq> Eq for HashMap<K, V> {}

impl<K: PartialEq, V> HashMap<K, V> {
    pub fn new() -> Self {
        HashMap { items: Vec::new() }
    }
    pub fn len(&self) -> usize {
        self.items.len()
    }
    pub fn is_empty(&self) -> bool {
        self.items.is_empty()
    }
    fn pos<Q: ?Sized + PartialEq>(&self, k: &Q) -> Option<usize>
    where
        K: std::borrow::Borrow<Q>,
    {
        let mut i = 0;
        while i < self.items.len() {
            if self.items[i].0.borrow() == k {
                return Some(i);
            }
            i += 1;
        }
        None
    }
    pub fn contains_key<Q: ?Sized + PartialEq>(&self, k: &Q) -> bool
    where
        K: std::borrow::Borrow<Q>,
    {
        self.pos(k).is_some()
    }
    pub fn get<Q: ?Sized + PartialEq>(&self, k: &Q) -> Option<&V>
    where
        K: std::borrow::Borrow<Q>,
    {
        match self.pos(k) {
            Some(i) => Some(&self.items[i].1),
            None => None,
        }
    }
    pub fn get_mut<Q: ?Sized + PartialEq>(&mut self, k: &Q) -> Option<&mut V>
    where
        K: std::borrow::Borrow<Q>,
    {
        match self.pos(k) {
            Some(i) => Some(&mut self.items[i].1),
            None => None,
        }
    }
    pub fn insert(&mut self, k: K, v: V) -> Option<V> {
        match self.pos::<K>(&k) {
            Some(i) => Some(std::mem::replace(&mut self.items[i].1, v)),
            None => {
                self.items.push((k, v));
                None
            }
        }
    }
    pub fn remove<Q: ?Sized + PartialEq>(&mut self, k: &Q) -> Option<V>
    where
        K: std::borrow::Borrow<Q>,
    {
        match self.pos(k) {
            Some(i) => Some(self.items.remove(i).1),
            None => None,
        }
    }
    pub fn clear(&mut self) {
        self.items.clear()
    }
    pub fn entry(&mut self, k: K) -> Entry<'_, K, V> {
        match self.pos::<K>(&k) {
            Some(i) => Entry::Occupied(OccupiedEntry { map: self, idx: i }),
            None => Entry::Vacant(VacantEntry { map: self, key: k }),
        }
    }
    pub fn iter(&self) -> Iter<'_, K, V> {
        Iter { inner: self.items.iter() }
    }
    pub fn values(&self) -> impl Iterator<Item = &V> {
        self.items.iter().map(|(_, v)| v)
    }
    pub fn keys(&self) -> impl Iterator<Item = &K> {
        self.items.iter().map(|(k, _)| k)
    }
    pub fn retain<F: FnMut(&K, &mut V) -> bool>(&mut self, mut f: F) {
        self.items.retain_mut(|(k, v)| f(k, v))
    }
}

#[derive(Debug)]
pub struct Iter<'a, K, V> {
    inner: std::slice::Iter<'a, (K, V)>,
}

impl<'a, K, V> Clone for Iter<'a, K, V> {
    fn clone(&self) -> Self {
        Iter { inner: self.inner.clone() }
    }
}

impl<'a, K, V> Iterator for Iter<'a, K, V> {
    type Item = (&'a K, &'a V);
    fn next(&mut self) -> Option<(&'a K, &'a V)> {
        self.inner.next().map(|(k, v)| (k, v))
    }
    fn size_hint(&self) -> (usize, Option<usize>) {
        self.inner.size_hint()
    }
}

pub enum Entry<'a, K, V> {
    Occupied(OccupiedEntry<'a, K, V>),
    Vacant(VacantEntry<'a, K, V>),
}

pub struct OccupiedEntry<'a, K, V> {
    map: &'a mut HashMap<K, V>,
    idx: usize,
}

pub struct VacantEntry<'a, K, V> {
    map: &'a mut HashMap<K, V>,
    key: K,
}

impl<'a, K, V> OccupiedEntry<'a, K, V> {
    pub fn get(&self) -> &V {
        &self.map.items[self.idx].1
    }
    pub fn get_mut(&mut self) -> &mut V {
        &mut self.map.items[self.idx].1
    }
    pub fn into_mut(self) -> &'a mut V {
        &mut self.map.items[self.idx].1
    }
    pub fn insert(&mut self, v: V) -> V {
        std::mem::replace(&mut self.map.items[self.idx].1, v)
    }
    pub fn remove(self) -> V {
        self.map.items.remove(self.idx).1
    }
}

impl<'a, K, V> VacantEntry<'a, K, V> {
    pub fn insert(self, v: V) -> &'a mut V {
        self.map.items.push((self.key, v));
        let n = self.map.items.len();
        &mut self.map.items[n - 1].1
    }
}
