// C01 — in-crate harnesses for yash-semantics (injected under
// expansion/initial/param/switch.rs): the switch decision table (XCU 2.6.2) and the
// phrase algebra behind "$@" / "$*" (expansion/phrase.rs).

use super::{Vacancy, ValueCondition};
use crate::expansion::attr::{AttrChar, Origin};
use crate::expansion::phrase::Phrase;
use yash_env::variable::Value;
use yash_syntax::syntax::SwitchCondition;

// ---------------------------------------------------------------------------
// Switch decision table.  XCU 2.6.2:           set&not null   set but null   unset
//   ${p:-w} ${p:=w} ${p:?w} ${p:+w} (colon)      occupied       vacant        vacant
//   ${p-w}  ${p=w}  ${p?w}  ${p+w}  (no colon)   occupied       occupied      vacant
// Arrays (yash extension, docs/src/language/parameters): an array without values and an
// array holding one empty string are "null" for the colon forms.
// ---------------------------------------------------------------------------
#[kani::proof]
#[kani::unwind(6)]
fn c01_switch_table() {
    let shape: u8 = kani::any();
    kani::assume(shape < 8);
    // value shapes: 0 unset, 1 "", 2 "a", 3 (), 4 (""), 5 ("a"), 6 ("" ""), 7 ("" "a")
    let value: Option<Value> = match shape {
        0 => None,
        1 => Some(Value::Scalar(String::new())),
        2 => Some(Value::Scalar(String::from("a"))),
        3 => Some(Value::Array(Vec::new())),
        4 => Some(Value::Array(vec![String::new()])),
        5 => Some(Value::Array(vec![String::from("a")])),
        6 => Some(Value::Array(vec![String::new(), String::new()])),
        _ => Some(Value::Array(vec![String::new(), String::from("a")])),
    };
    let colon: bool = kani::any();
    let cond = if colon { SwitchCondition::UnsetOrEmpty } else { SwitchCondition::Unset };
    let got = ValueCondition::with(cond, Vacancy::of(value.as_ref()));
    let unset = shape == 0;
    let null = shape == 1 || shape == 3 || shape == 4;
    let vacant = unset || (colon && null);
    assert!(matches!(got, ValueCondition::Vacant(_)) == vacant, "C01 switch condition table (XCU 2.6.2)");
    if let ValueCondition::Vacant(v) = got {
        let want = match shape {
            0 => Vacancy::Unset,
            1 => Vacancy::EmptyScalar,
            3 => Vacancy::ValuelessArray,
            _ => Vacancy::EmptyValueArray,
        };
        assert!(v == want, "C01 kind of vacancy reported");
    }
    kani::cover!(colon && null && !unset, "set-but-null under a colon form");
    kani::cover!(!colon && null, "set-but-null without colon is occupied");
    std::mem::forget(value);
}

// ---------------------------------------------------------------------------
// Phrase algebra. A phrase denotes a list of fields; appending glues the last field of
// the left operand to the first field of the right one; zero fields is the identity.
// Shapes are concrete per arm, all characters and attributes symbolic.
// ---------------------------------------------------------------------------
fn any_char() -> AttrChar {
    let k: u8 = kani::any();
    kani::assume(k < 3);
    AttrChar {
        value: kani::any(),
        origin: match k {
            0 => Origin::Literal,
            1 => Origin::HardExpansion,
            _ => Origin::SoftExpansion,
        },
        is_quoted: kani::any(),
        is_quoting: kani::any(),
    }
}

const MAXF: usize = 4;
const MAXC: usize = 4;

#[derive(Clone, Copy)]
struct Model {
    nf: usize,
    len: [usize; MAXF],
    ch: [[AttrChar; MAXC]; MAXF],
}

const BLANK: AttrChar = AttrChar { value: '\0', origin: Origin::Literal, is_quoted: false, is_quoting: false };

/// shape codes: 0 Char(c), 1 Field[], 2 Field[c], 3 Field[c c], 4 Full[], 5 Full[[]],
/// 6 Full[[c]], 7 Full[[c][]], 8 Full[[c][c]]
fn build(shape: u8) -> (Phrase, Model) {
    let mut m = Model { nf: 0, len: [0; MAXF], ch: [[BLANK; MAXC]; MAXF] };
    let (a, b) = (any_char(), any_char());
    let p = match shape {
        0 => {
            m.nf = 1;
            m.len[0] = 1;
            m.ch[0][0] = a;
            Phrase::Char(a)
        }
        1 => {
            m.nf = 1;
            Phrase::Field(Vec::new())
        }
        2 => {
            m.nf = 1;
            m.len[0] = 1;
            m.ch[0][0] = a;
            Phrase::Field(vec![a])
        }
        3 => {
            m.nf = 1;
            m.len[0] = 2;
            m.ch[0][0] = a;
            m.ch[0][1] = b;
            Phrase::Field(vec![a, b])
        }
        4 => Phrase::Full(Vec::new()),
        5 => {
            m.nf = 1;
            Phrase::Full(vec![Vec::new()])
        }
        6 => {
            m.nf = 1;
            m.len[0] = 1;
            m.ch[0][0] = a;
            Phrase::Full(vec![vec![a]])
        }
        7 => {
            m.nf = 2;
            m.len[0] = 1;
            m.ch[0][0] = a;
            Phrase::Full(vec![vec![a], Vec::new()])
        }
        _ => {
            m.nf = 2;
            m.len[0] = 1;
            m.ch[0][0] = a;
            m.len[1] = 1;
            m.ch[1][0] = b;
            Phrase::Full(vec![vec![a], vec![b]])
        }
    };
    (p, m)
}

fn model_append(l: &Model, r: &Model) -> Model {
    if r.nf == 0 {
        return *l;
    }
    if l.nf == 0 {
        return *r;
    }
    let mut m = *l;
    // glue r's first field onto l's last field
    let last = l.nf - 1;
    let mut k = 0;
    while k < r.len[0] {
        m.ch[last][m.len[last]] = r.ch[0][k];
        m.len[last] += 1;
        k += 1;
    }
    let mut f = 1;
    while f < r.nf {
        m.len[m.nf] = r.len[f];
        m.ch[m.nf] = r.ch[f];
        m.nf += 1;
        f += 1;
    }
    m
}

fn same_char(a: &AttrChar, b: &AttrChar) -> bool {
    a.value == b.value && a.origin == b.origin && a.is_quoted == b.is_quoted && a.is_quoting == b.is_quoting
}

fn check_pair(ls: u8, rs: u8) {
    let (mut l, ml) = build(ls);
    let (mut r, mr) = build(rs);
    assert!(l.field_count() == ml.nf && r.field_count() == mr.nf, "C01 field_count");
    assert!(l.is_zero_fields() == (ls == 4), "C01 is_zero_fields");
    let want = model_append(&ml, &mr);
    l.append(&mut r);
    assert!(r.is_zero_fields(), "C01 append drains the right operand");
    assert!(l.field_count() == want.nf, "C01 number of fields after append");
    let mut f = 0;
    let mut it = l.into_iter();
    while f < want.nf {
        let field = it.next();
        match field {
            None => panic!("C01 missing field after append"),
            Some(v) => {
                assert!(v.len() == want.len[f], "C01 field length after append");
                let mut k = 0;
                while k < want.len[f] {
                    assert!(same_char(&v[k], &want.ch[f][k]), "C01 characters keep order and attributes across append");
                    k += 1;
                }
                std::mem::forget(v);
            }
        }
        f += 1;
    }
    assert!(it.next().is_none(), "C01 no extra field after append");
    kani::cover!(want.nf >= 2 && ml.nf >= 1 && mr.nf >= 1, "multi-field result with glue");
    std::mem::forget(it);
    std::mem::forget(r);
}

macro_rules! phrase_harness {
    ($name:ident, $ls:expr) => {
        #[kani::proof]
        #[kani::unwind(6)]
        fn $name() {
            let rs: u8 = kani::any();
            kani::assume(rs < 9);
            if rs == 0 {
                check_pair($ls, 0)
            } else if rs == 1 {
                check_pair($ls, 1)
            } else if rs == 2 {
                check_pair($ls, 2)
            } else if rs == 3 {
                check_pair($ls, 3)
            } else if rs == 4 {
                check_pair($ls, 4)
            } else if rs == 5 {
                check_pair($ls, 5)
            } else if rs == 6 {
                check_pair($ls, 6)
            } else if rs == 7 {
                check_pair($ls, 7)
            } else {
                check_pair($ls, 8)
            }
            kani::cover!(true, "each: reached");
        }
    };
}
phrase_harness!(c01_phrase_char, 0);
phrase_harness!(c01_phrase_field0, 1);
phrase_harness!(c01_phrase_field1, 2);
phrase_harness!(c01_phrase_field2, 3);
phrase_harness!(c01_phrase_full0, 4);
phrase_harness!(c01_phrase_full_empty, 5);
phrase_harness!(c01_phrase_full1, 6);
phrase_harness!(c01_phrase_full_1_0, 7);
phrase_harness!(c01_phrase_full_1_1, 8);
