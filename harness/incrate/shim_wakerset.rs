// T10 — stand-in for yash_env::waker::WakerSet inside the virtual FIFO (snapshot transform,
// cfg(kani) only). The real set is a HashSet of weak waker cells; the data path of the pipe never
// reads it. The stand-in counts registrations and wake-ups so that the step harnesses can assert
// WHEN the pipe wakes its peers (a reader after bytes arrived, a writer after room was made).
#![allow(dead_code)]

use std::cell::Cell;
use std::rc::Weak;
use std::task::Waker;

#[derive(Clone, Debug, Default, Eq, PartialEq)]
pub struct WakerSet {
    pub inserted: u8,
    pub woken: u8,
}

impl WakerSet {
    pub fn new() -> Self {
        Self::default()
    }
    pub fn insert(&mut self, _waker: Weak<Cell<Option<Waker>>>) -> bool {
        self.inserted = self.inserted.wrapping_add(1);
        true
    }
    pub fn wake_all(&mut self) {
        self.woken = self.woken.wrapping_add(1);
        self.inserted = 0;
    }
    pub fn is_empty(&self) -> bool {
        self.inserted == 0
    }
    pub fn len(&self) -> usize {
        self.inserted as usize
    }
    pub fn clear(&mut self) {
        self.inserted = 0;
    }
}
