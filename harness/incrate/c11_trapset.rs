// C11 — table-level steps on yash_env::trap::TrapSet (injected under trap.rs; T1b, T7).
// The per-signal record logic is decided in c11_state.rs; here: which signals TrapSet
// treats specially (KILL/STOP untrappable; CHLD, INT/QUIT, stoppers on subshell entry;
// the sets touched by enable/disable_internal_dispositions*), and the pending-flag
// hand-out over several signals.

use super::state::GrandState;
use super::*;
use crate::verif_bt::Cmd;
use crate::system::r#virtual::*;
use crate::system::{Disposition, Errno, Signals};
use std::cell::Cell;
use std::future::Future;
use std::ops::RangeInclusive;
use std::pin::pin;
use std::task::{Context, Poll, Waker};

const NSIG: usize = 130;

struct Sys {
    disp: [Cell<Disposition>; NSIG],
    sets: Cell<u8>,
}

impl Sys {
    fn new() -> Self {
        Sys { disp: [const { Cell::new(Disposition::Default) }; NSIG], sets: Cell::new(0) }
    }
    fn at(&self, s: signal::Number) -> &Cell<Disposition> {
        &self.disp[s.as_raw() as usize]
    }
}

impl Signals for Sys {
    const SIGABRT: signal::Number = SIGABRT;
    const SIGALRM: signal::Number = SIGALRM;
    const SIGBUS: signal::Number = SIGBUS;
    const SIGCHLD: signal::Number = SIGCHLD;
    const SIGCLD: Option<signal::Number> = None;
    const SIGCONT: signal::Number = SIGCONT;
    const SIGEMT: Option<signal::Number> = None;
    const SIGFPE: signal::Number = SIGFPE;
    const SIGHUP: signal::Number = SIGHUP;
    const SIGILL: signal::Number = SIGILL;
    const SIGINFO: Option<signal::Number> = None;
    const SIGINT: signal::Number = SIGINT;
    const SIGIO: Option<signal::Number> = None;
    const SIGIOT: signal::Number = SIGIOT;
    const SIGKILL: signal::Number = SIGKILL;
    const SIGLOST: Option<signal::Number> = None;
    const SIGPIPE: signal::Number = SIGPIPE;
    const SIGPOLL: Option<signal::Number> = None;
    const SIGPROF: signal::Number = SIGPROF;
    const SIGPWR: Option<signal::Number> = None;
    const SIGQUIT: signal::Number = SIGQUIT;
    const SIGSEGV: signal::Number = SIGSEGV;
    const SIGSTKFLT: Option<signal::Number> = None;
    const SIGSTOP: signal::Number = SIGSTOP;
    const SIGSYS: signal::Number = SIGSYS;
    const SIGTERM: signal::Number = SIGTERM;
    const SIGTHR: Option<signal::Number> = None;
    const SIGTRAP: signal::Number = SIGTRAP;
    const SIGTSTP: signal::Number = SIGTSTP;
    const SIGTTIN: signal::Number = SIGTTIN;
    const SIGTTOU: signal::Number = SIGTTOU;
    const SIGURG: signal::Number = SIGURG;
    const SIGUSR1: signal::Number = SIGUSR1;
    const SIGUSR2: signal::Number = SIGUSR2;
    const SIGVTALRM: signal::Number = SIGVTALRM;
    const SIGWINCH: signal::Number = SIGWINCH;
    const SIGXCPU: signal::Number = SIGXCPU;
    const SIGXFSZ: signal::Number = SIGXFSZ;
    fn sigrt_range(&self) -> Option<RangeInclusive<signal::Number>> {
        None
    }
}

impl SignalSystem for Sys {
    fn get_disposition(&self, signal: signal::Number) -> Result<Disposition, Errno> {
        Ok(self.at(signal).get())
    }
    fn set_disposition(
        &self,
        signal: signal::Number,
        disposition: Disposition,
    ) -> impl Future<Output = Result<Disposition, Errno>> + use<> {
        self.sets.set(self.sets.get() + 1);
        std::future::ready(Ok(self.at(signal).replace(disposition)))
    }
}

fn now<F: Future>(f: F) -> F::Output {
    // The future is never dropped: once it has completed, its drop glue would still be explored
    // for every suspension state (CBMC cannot see that the generator is in its final state), and
    // those states own errors, fields and locations with recursive drop glue.
    let mut f = std::mem::ManuallyDrop::new(f);
    let mut f = unsafe { std::pin::Pin::new_unchecked(&mut *f) };
    let mut cx = std::task::Context::from_waker(std::task::Waker::noop());
    match f.as_mut().poll(&mut cx) {
        std::task::Poll::Ready(v) => v,
        std::task::Poll::Pending => panic!("stub system futures are always ready"),
    }
}

fn any_disp() -> Disposition {
    let k: u8 = kani::any();
    kani::assume(k < 3);
    match k {
        0 => Disposition::Default,
        1 => Disposition::Ignore,
        _ => Disposition::Catch,
    }
}

fn rank(d: Disposition) -> u8 {
    match d {
        Disposition::Default => 0,
        Disposition::Ignore => 1,
        Disposition::Catch => 2,
    }
}

fn setting_rank(a: &Action) -> u8 {
    match a {
        Action::Default => 0,
        Action::Ignore => 1,
        Action::Command(_) => 2,
    }
}

fn of_rank(r: u8) -> Disposition {
    match r {
        0 => Disposition::Default,
        1 => Disposition::Ignore,
        _ => Disposition::Catch,
    }
}

/// Adds a record for `sig` whose action kind is `ak` (0 default, 1 ignore, 2 command), with a
/// symbolic internal disposition and pending flag, and makes the system agree with it (J).
fn add(set: &mut TrapSet, sys: &Sys, sig: signal::Number, ak: u8, cmd: &Cmd) -> (u8, Disposition) {
    let action = match ak {
        0 => Action::Default,
        1 => Action::Ignore,
        _ => Action::Command(cmd.clone()),
    };
    let internal = any_disp();
    let origin_user: bool = kani::any();
    let mut slot: Option<(Condition, GrandState)> = None;
    // build the record through the real constructor path of a vacant entry, then adjust
    // (GrandState's fields are private to trap::state; TrapSet only sees its API)
    sys.at(sig).set(if ak == 1 && !origin_user { Disposition::Ignore } else { Disposition::Default });
    let e = crate::verif_bt::Entry::from_slot(&mut slot, Condition::Signal(sig));
    if ak == 1 && !origin_user {
        // ignored on entry: recorded by the first (refused) trap attempt
        let r = now(GrandState::set_action(sys, e, Action::Default, Location::default(), false));
        assert!(r == Err(SetActionError::InitiallyIgnored));
    } else {
        let r = now(GrandState::set_action(sys, e, action, Location::default(), true));
        assert!(r.is_ok());
    }
    let e = crate::verif_bt::Entry::from_slot(&mut slot, Condition::Signal(sig));
    now(GrandState::set_internal_disposition(sys, e, internal)).unwrap();
    let (k, mut g) = slot.take().unwrap();
    if kani::any() {
        g.mark_as_caught();
    }
    set.traps.insert(k, g);
    sys.sets.set(0);
    (ak, internal)
}

fn installed_ok(set: &TrapSet, sys: &Sys, sig: signal::Number) -> bool {
    match set.traps.get(&Condition::Signal(sig)) {
        Some(g) => {
            let want = rank(g.internal_disposition()).max(setting_rank(&g.current_state().action));
            rank(sys.at(sig).get()) == want
        }
        None => true,
    }
}

/// KILL and STOP can never be trapped; the refusal has no effect at all.
#[kani::proof]
#[kani::unwind(6)]
fn c11_kill_stop_untrappable() {
    let cmd = Cmd;
    let keep = cmd.clone();
    let sys = Sys::new();
    let mut set = TrapSet::default();
    let other: bool = kani::any();
    if other {
        add(&mut set, &sys, SIGUSR1, 2, &cmd);
    }
    let kill: bool = kani::any();
    let sig = if kill { SIGKILL } else { SIGSTOP };
    let ak: u8 = kani::any();
    kani::assume(ak < 3);
    let action = match ak {
        0 => Action::Default,
        1 => Action::Ignore,
        _ => Action::Command(cmd.clone()),
    };
    let over: bool = kani::any();
    let r = now(set.set_action(&sys, sig, action, Location::default(), over));
    assert!(r == Err(if kill { SetActionError::SIGKILL } else { SetActionError::SIGSTOP }), "C11 KILL and STOP can never be trapped");
    assert!(sys.sets.get() == 0, "C11 refused trap does not touch the system");
    assert!(set.traps.get(&Condition::Signal(sig)).is_none(), "C11 refused trap leaves no record");
    assert!(set.traps.len() == if other { 1 } else { 0 }, "C11 refused trap leaves the table alone");
    assert!(installed_ok(&set, &sys, SIGUSR1), "C11 other traps unaffected");
    kani::cover!(other && kill && ak == 2, "command trap on KILL refused");
    std::mem::forget(set);
    std::mem::forget(keep);
}

fn check_subshell(which: u8, ak: u8) {
    // which: 0 USR1 (ordinary), 1 INT, 2 CHLD, 3 TSTP (stopper)
    let cmd = Cmd;
    let keep = cmd.clone();
    let sys = Sys::new();
    let mut set = TrapSet::default();
    let sig = match which {
        0 => SIGUSR1,
        1 => SIGINT,
        2 => SIGCHLD,
        _ => SIGTSTP,
    };
    let (_, internal) = add(&mut set, &sys, sig, ak, &cmd);
    let inherited_ignore = ak == 1
        && set.traps.get(&Condition::Signal(sig)).map(|g| g.current_state().origin == Origin::Inherited) == Some(true);
    let ign: bool = kani::any();
    let keep_stoppers: bool = kani::any();
    now(set.enter_subshell(&sys, ign, keep_stoppers));
    let g = set.traps.get(&Condition::Signal(sig)).unwrap();
    let a = setting_rank(&g.current_state().action);
    // which option applies to this signal
    let forced_ignore = (which == 1 && ign) || (which == 3 && keep_stoppers && internal != Disposition::Default);
    if forced_ignore {
        assert!(a == 1 && sys.at(sig).get() == Disposition::Ignore, "C11 subshell: INT/QUIT (async) and kept stoppers are ignored");
    } else {
        assert!(a == if ak == 2 { 0 } else { ak }, "C11 subshell: command traps reset to default, ignore stays ignore");
    }
    if ak == 2 {
        assert!(matches!(g.parent_state(), Some(p) if matches!(p.action, Action::Command(_))), "C11 subshell: parent trap remembered for display");
    }
    if which == 2 {
        assert!(g.internal_disposition() == internal, "C11 subshell: SIGCHLD keeps its internal handler");
    } else {
        assert!(g.internal_disposition() == Disposition::Default, "C11 subshell: other internal handlers are dropped");
    }
    if inherited_ignore {
        assert!(g.current_state().origin == Origin::Inherited && a == 1, "C11 subshell: signal ignored on entry stays untrappable");
    }
    assert!(installed_ok(&set, &sys, sig), "C11 subshell: installed disposition matches the table");
    // INT and QUIT get ignored even when they had no record
    if ign {
        assert!(sys.at(SIGQUIT).get() == Disposition::Ignore && sys.at(SIGINT).get() == Disposition::Ignore,
            "C11 async subshell ignores SIGINT and SIGQUIT");
        assert!(installed_ok(&set, &sys, SIGQUIT) && set.traps.get(&Condition::Signal(SIGQUIT)).is_some(), "C11 ignored signal recorded");
    } else if which != 1 {
        assert!(set.traps.get(&Condition::Signal(SIGINT)).is_none() && sys.at(SIGINT).get() == Disposition::Default,
            "C11 untouched signal stays untouched");
    }
    kani::cover!(forced_ignore && ak == 2, "command trap replaced by ignore in subshell");
    kani::cover!(which == 2 && internal == Disposition::Catch && ak == 2, "SIGCHLD handler survives under a reset trap");
    kani::cover!(true, "each: step completed");
    std::mem::forget(set);
    std::mem::forget(keep);
}

macro_rules! subshell_harness {
    ($name:ident, $which:expr) => {
        #[kani::proof]
        #[kani::unwind(6)]
        fn $name() {
            let ak: u8 = kani::any();
            kani::assume(ak < 3);
            if ak == 0 {
                check_subshell($which, 0)
            } else if ak == 1 {
                check_subshell($which, 1)
            } else {
                check_subshell($which, 2)
            }
        }
    };
}
subshell_harness!(c11_table_subshell_usr1, 0);
subshell_harness!(c11_table_subshell_int, 1);
subshell_harness!(c11_table_subshell_chld, 2);
subshell_harness!(c11_table_subshell_tstp, 3);

/// enable_*/disable_* install exactly the documented sets, on top of whatever traps exist.
#[kani::proof]
#[kani::unwind(6)]
fn c11_table_internal_sets() {
    let cmd = Cmd;
    let keep = cmd.clone();
    let sys = Sys::new();
    let mut set = TrapSet::default();
    let ak: u8 = kani::any();
    kani::assume(ak == 0 || ak == 2);
    // a user trap on SIGTERM that must survive all of it
    if ak == 2 {
        let r = now(set.set_action(&sys, SIGTERM, Action::Command(cmd.clone()), Location::default(), false));
        assert!(r.is_ok());
    }
    let op: u8 = kani::any();
    kani::assume(op < 3);
    match op {
        0 => {
            now(set.enable_internal_disposition_for_sigchld(&sys)).unwrap();
            assert!(sys.at(SIGCHLD).get() == Disposition::Catch, "C11 SIGCHLD handler installed");
            assert!(sys.at(SIGINT).get() == Disposition::Default, "C11 nothing else touched");
        }
        1 => {
            now(set.enable_internal_dispositions_for_terminators(&sys)).unwrap();
            assert!(sys.at(SIGINT).get() == Disposition::Catch && sys.at(SIGQUIT).get() == Disposition::Ignore, "C11 terminators set");
            assert!(sys.at(SIGTERM).get() == if ak == 2 { Disposition::Catch } else { Disposition::Ignore }, "C11 SIGTERM: trap wins over internal ignore");
            now(set.disable_internal_dispositions_for_terminators(&sys)).unwrap();
            assert!(sys.at(SIGINT).get() == Disposition::Default && sys.at(SIGQUIT).get() == Disposition::Default, "C11 terminators restored");
            assert!(sys.at(SIGTERM).get() == if ak == 2 { Disposition::Catch } else { Disposition::Default }, "C11 SIGTERM trap survives disabling");
        }
        _ => {
            now(set.enable_internal_dispositions_for_stoppers(&sys)).unwrap();
            assert!(sys.at(SIGTSTP).get() == Disposition::Ignore && sys.at(SIGTTIN).get() == Disposition::Ignore
                && sys.at(SIGTTOU).get() == Disposition::Ignore, "C11 stoppers ignored");
            now(set.disable_internal_dispositions(&sys)).unwrap();
            assert!(sys.at(SIGTSTP).get() == Disposition::Default && sys.at(SIGTTIN).get() == Disposition::Default
                && sys.at(SIGTTOU).get() == Disposition::Default && sys.at(SIGCHLD).get() == Disposition::Default, "C11 all internal handlers removed");
        }
    }
    assert!(installed_ok(&set, &sys, SIGTERM) && installed_ok(&set, &sys, SIGINT) && installed_ok(&set, &sys, SIGTSTP) && installed_ok(&set, &sys, SIGCHLD),
        "C11 installed dispositions match the table");
    kani::cover!(op == 1 && ak == 2, "terminators with a SIGTERM trap");
    std::mem::forget(set);
    std::mem::forget(keep);
}

/// Each delivery of a trapped signal is handed out exactly once; untrapped signals never.
#[kani::proof]
#[kani::unwind(6)]
fn c11_table_pending() {
    let cmd = Cmd;
    let keep = cmd.clone();
    let sys = Sys::new();
    let mut set = TrapSet::default();
    // an EXIT trap is a record that is not a signal: it must not get in the way of handing out caught signals
    // (added after seed C11-r4-take-caught-signal-stops-at-exit). It is set FIRST: the stand-in map of T1b iterates in
    // slot order, and `Condition::Exit` is the smallest key, so this is also the iteration order of the real BTreeMap.
    let exit_trap: bool = kani::any();
    if exit_trap {
        now(set.set_action(&sys, Condition::Exit, Action::Command(cmd.clone()), Location::default(), false)).unwrap();
    }
    now(set.set_action(&sys, SIGUSR1, Action::Command(cmd.clone()), Location::default(), false)).unwrap();
    now(set.set_action(&sys, SIGTERM, Action::Command(cmd.clone()), Location::default(), false)).unwrap();
    let (c1, c2, c3): (bool, bool, bool) = (kani::any(), kani::any(), kani::any());
    if c1 {
        set.catch_signal(SIGUSR1);
    }
    if c2 {
        set.catch_signal(SIGTERM);
    }
    if c3 {
        set.catch_signal(SIGHUP); // no trap
    }
    // a trap set for ANOTHER condition between delivery and the next command boundary must not
    // lose the pending deliveries
    let other: bool = kani::any();
    if other {
        now(set.set_action(&sys, SIGQUIT, Action::Ignore, Location::default(), false)).unwrap();
    }
    let mut got_usr1 = 0;
    let mut got_term = 0;
    let mut k = 0;
    while k < 3 {
        let t = set.take_caught_signal().map(|(s, _)| s);
        match t {
            Some(s) if s == SIGUSR1 => got_usr1 += 1,
            Some(s) if s == SIGTERM => got_term += 1,
            Some(_) => panic!("C11 a signal without a trap is never handed out"),
            None => {}
        }
        k += 1;
    }
    assert!(got_usr1 == c1 as u8 && got_term == c2 as u8, "C11 each caught signal is handed out exactly once");
    assert!(set.take_signal_if_caught(SIGUSR1).is_none(), "C11 nothing left pending");
    kani::cover!(c1 && c2, "two different pending signals");
    kani::cover!(other && c1, "trap command between delivery and hand-out");
    kani::cover!(exit_trap && c1 && c2, "EXIT trap present while two signals are pending");
    std::mem::forget(set);
    std::mem::forget(keep);
}
