// T1c — inline (heap-free) stand-ins used by the C16 harnesses (snapshot transform, cfg(kani) only).
//
//  * `InlineVec<T>`: fixed-capacity vector with the contract of the `Vec` operations the code under
//    test uses on a per-name variable stack (new / push / pop / pop_if / drain(from..) / last /
//    last_mut / is_empty / indexing / `[from..].iter()` / partition_point). Out-of-range indexing,
//    slicing and draining panic under the same conditions as `Vec` (the checks are spelled out). Exceeding the capacity
//    is a harness-internal failure, not a verdict.
//  * `SlotMap<K, V>`: association list over inline slots with the contract of the `HashMap`
//    operations used by `VariableSet` (get / get_mut / insert / entry / retain / iter / values).
//
// Reason (measured): with the records on the heap (Vec inside the association list) CBMC encodes
// every move of a `VariableInContext` bytewise and ran out of memory in propositional reduction
// after 30 s of symbolic execution; inline slots keep the records field-wise.
#![allow(dead_code)]

use std::ops::{Index, IndexMut, RangeFrom};

pub const CAP: usize = 4;

/// Storage is one boxed cell per element (`[Option<Box<T>>; CAP]`): every record is its own typed
/// object for CBMC and the slot array only holds pointers. (Measured: with the records inline - as
/// `MaybeUninit<T>` or `Option<T>` - a push through a reference into the nested storage was encoded as a
/// byte-level update of the whole map and ran out of memory at 12-14 GB; with `Vec` likewise.)
pub struct InlineVec<T> {
    len: usize,
    items: [Option<Box<T>>; CAP],
}

/// `&stack[from..]`: a view of the tail with the slice operations the code under test uses.
#[repr(transparent)]
pub struct Tail<T>([Option<Box<T>>]);

impl<T> Tail<T> {
    pub fn iter(&self) -> impl DoubleEndedIterator<Item = &T> + ExactSizeIterator {
        self.0.iter().map(|o| match o {
            Some(v) => &**v,
            None => unreachable!(),
        })
    }
    pub fn len(&self) -> usize {
        self.0.len()
    }
    pub fn is_empty(&self) -> bool {
        self.0.is_empty()
    }
}

impl<T> InlineVec<T> {
    pub fn new() -> Self {
        InlineVec { len: 0, items: [const { None }; CAP] }
    }
    pub fn len(&self) -> usize {
        self.len
    }
    pub fn is_empty(&self) -> bool {
        self.len == 0
    }
    pub fn push(&mut self, v: T) {
        assert!(self.len < CAP, "stand-in capacity exceeded");
        self.items[self.len] = Some(Box::new(v));
        self.len += 1;
    }
    pub fn pop(&mut self) -> Option<T> {
        if self.len == 0 {
            return None;
        }
        self.len -= 1;
        self.items[self.len].take().map(|b| *b)
    }
    pub fn pop_if(&mut self, f: impl FnOnce(&mut T) -> bool) -> Option<T> {
        if self.len == 0 {
            return None;
        }
        let hit = match &mut self.items[self.len - 1] {
            Some(last) => f(&mut **last),
            None => unreachable!(),
        };
        if hit { self.pop() } else { None }
    }
    pub fn last(&self) -> Option<&T> {
        if self.len == 0 { None } else { self.items[self.len - 1].as_deref() }
    }
    pub fn last_mut(&mut self) -> Option<&mut T> {
        if self.len == 0 { None } else { self.items[self.len - 1].as_deref_mut() }
    }
    pub fn iter(&self) -> impl DoubleEndedIterator<Item = &T> + ExactSizeIterator {
        self[0..].iter()
    }
    // further `Vec` / slice operations a changed implementation might reasonably use
    pub fn first(&self) -> Option<&T> {
        if self.len == 0 { None } else { self.items[0].as_deref() }
    }
    pub fn first_mut(&mut self) -> Option<&mut T> {
        if self.len == 0 { None } else { self.items[0].as_deref_mut() }
    }
    pub fn get(&self, i: usize) -> Option<&T> {
        if i < self.len { self.items[i].as_deref() } else { None }
    }
    pub fn get_mut(&mut self, i: usize) -> Option<&mut T> {
        if i < self.len { self.items[i].as_deref_mut() } else { None }
    }
    pub fn iter_mut(&mut self) -> impl DoubleEndedIterator<Item = &mut T> + ExactSizeIterator {
        let n = self.len;
        self.items[..n].iter_mut().map(|o| match o {
            Some(v) => &mut **v,
            None => unreachable!(),
        })
    }
    pub fn clear(&mut self) {
        while self.pop().is_some() {}
    }
    pub fn truncate(&mut self, n: usize) {
        while self.len > n {
            self.pop();
        }
    }
    /// `Vec::remove`: panics if `i >= len` like `Vec`.
    pub fn remove(&mut self, i: usize) -> T {
        assert!(i < self.len, "C16 no panic: removal index out of bounds (std check in Vec::remove)");
        let v = self.items[i].take();
        let mut k = i;
        while k + 1 < self.len {
            self.items[k] = self.items[k + 1].take();
            k += 1;
        }
        self.len -= 1;
        match v {
            Some(b) => *b,
            None => unreachable!(),
        }
    }
    /// `Vec::insert`: panics if `i > len` like `Vec`.
    pub fn insert(&mut self, i: usize, v: T) {
        assert!(i <= self.len, "C16 no panic: insertion index out of bounds (std check in Vec::insert)");
        assert!(self.len < CAP, "stand-in capacity exceeded");
        let mut k = self.len;
        while k > i {
            self.items[k] = self.items[k - 1].take();
            k -= 1;
        }
        self.items[i] = Some(Box::new(v));
        self.len += 1;
    }
    pub fn retain(&mut self, mut f: impl FnMut(&T) -> bool) {
        let mut i = 0;
        while i < self.len {
            let keep = match &self.items[i] {
                Some(v) => f(v),
                None => unreachable!(),
            };
            if keep {
                i += 1;
            } else {
                self.remove(i);
            }
        }
    }
    /// `[T]::partition_point` (the predicate is true on a prefix).
    pub fn partition_point(&self, mut pred: impl FnMut(&T) -> bool) -> usize {
        let mut i = 0;
        while i < self.len {
            match &self.items[i] {
                Some(v) => {
                    if !pred(v) {
                        return i;
                    }
                }
                None => unreachable!(),
            }
            i += 1;
        }
        self.len
    }
    /// `Vec::drain(from..)`: removes the tail and yields it; panics if `from > len` like `Vec`.
    pub fn drain(&mut self, r: RangeFrom<usize>) -> Drain<T> {
        assert!(r.start <= self.len, "C16 no panic: range start index out of range (std check in Vec::drain)");
        let mut d = Drain { front: 0, inner: InlineVec::new() };
        let mut i = r.start;
        while i < self.len {
            match self.items[i].take() {
                Some(v) => {
                    d.inner.items[d.inner.len] = Some(v);
                    d.inner.len += 1;
                }
                None => unreachable!(),
            }
            i += 1;
        }
        self.len = r.start;
        d
    }
}

impl<T> Index<usize> for InlineVec<T> {
    type Output = T;
    fn index(&self, i: usize) -> &T {
        assert!(i < self.len, "C16 no panic: index out of bounds (std check in slice indexing)");
        match &self.items[i] {
            Some(v) => v,
            None => unreachable!(),
        }
    }
}

impl<T> IndexMut<usize> for InlineVec<T> {
    fn index_mut(&mut self, i: usize) -> &mut T {
        assert!(i < self.len, "C16 no panic: index out of bounds (std check in slice indexing)");
        match &mut self.items[i] {
            Some(v) => v,
            None => unreachable!(),
        }
    }
}

impl<T> Index<RangeFrom<usize>> for InlineVec<T> {
    type Output = Tail<T>;
    fn index(&self, r: RangeFrom<usize>) -> &Tail<T> {
        assert!(r.start <= self.len, "C16 no panic: range start index out of range (std check in slice indexing)");
        let s: &[Option<Box<T>>] = &self.items[r.start..self.len];
        unsafe { &*(s as *const [Option<Box<T>>] as *const Tail<T>) }
    }
}

pub struct Drain<T> {
    front: usize,
    inner: InlineVec<T>,
}

impl<T> Iterator for Drain<T> {
    type Item = T;
    fn next(&mut self) -> Option<T> {
        if self.front >= self.inner.len {
            return None;
        }
        let v = self.inner.items[self.front].take();
        self.front += 1;
        v.map(|b| *b)
    }
}

impl<T> DoubleEndedIterator for Drain<T> {
    fn next_back(&mut self) -> Option<T> {
        if self.front >= self.inner.len {
            return None;
        }
        self.inner.len -= 1;
        self.inner.items[self.inner.len].take().map(|b| *b)
    }
}

impl<T> Default for InlineVec<T> {
    fn default() -> Self {
        Self::new()
    }
}

impl<T: Clone> Clone for InlineVec<T> {
    fn clone(&self) -> Self {
        let mut v = InlineVec::new();
        let mut i = 0;
        while i < self.len {
            v.push(self[i].clone());
            i += 1;
        }
        v
    }
}

impl<T> std::fmt::Debug for InlineVec<T> {
    fn fmt(&self, _f: &mut std::fmt::Formatter<'_>) -> std::fmt::Result {
        Ok(())
    }
}

impl<T: PartialEq> PartialEq for InlineVec<T> {
    fn eq(&self, other: &Self) -> bool {
        if self.len != other.len {
            return false;
        }
        let mut i = 0;
        while i < self.len {
            if self[i] != other[i] {
                return false;
            }
            i += 1;
        }
        true
    }
}

impl<T: Eq> Eq for InlineVec<T> {}

// -------------------------------------------------------------------------------------------------

pub const SLOTS: usize = 3;

pub struct SlotMap<K, V> {
    pub slots: [Option<Box<(K, V)>>; SLOTS],
}

impl<K, V> Default for SlotMap<K, V> {
    fn default() -> Self {
        SlotMap { slots: [const { None }; SLOTS] }
    }
}

impl<K: PartialEq, V> SlotMap<K, V> {
    fn pos<Q: ?Sized + PartialEq>(&self, k: &Q) -> Option<usize>
    where
        K: std::borrow::Borrow<Q>,
    {
        let mut i = 0;
        while i < SLOTS {
            if let Some(kv) = &self.slots[i] {
                if kv.0.borrow() == k {
                    return Some(i);
                }
            }
            i += 1;
        }
        None
    }
    fn free(&self) -> usize {
        let mut i = 0;
        while i < SLOTS {
            if self.slots[i].is_none() {
                return i;
            }
            i += 1;
        }
        panic!("stand-in capacity exceeded");
    }
    pub fn get<Q: ?Sized + PartialEq>(&self, k: &Q) -> Option<&V>
    where
        K: std::borrow::Borrow<Q>,
    {
        match self.pos(k) {
            Some(i) => self.slots[i].as_ref().map(|kv| &kv.1),
            None => None,
        }
    }
    pub fn get_mut<Q: ?Sized + PartialEq>(&mut self, k: &Q) -> Option<&mut V>
    where
        K: std::borrow::Borrow<Q>,
    {
        match self.pos(k) {
            Some(i) => self.slots[i].as_mut().map(|kv| &mut kv.1),
            None => None,
        }
    }
    pub fn insert(&mut self, k: K, v: V) -> Option<V> {
        match self.pos::<K>(&k) {
            Some(i) => self.slots[i].as_mut().map(|kv| std::mem::replace(&mut kv.1, v)),
            None => {
                let i = self.free();
                self.slots[i] = Some(Box::new((k, v)));
                None
            }
        }
    }
    pub fn entry(&mut self, k: K) -> Entry<'_, K, V> {
        match self.pos::<K>(&k) {
            Some(i) => Entry::Occupied(OccupiedEntry { map: self, idx: i }),
            None => Entry::Vacant(VacantEntry { map: self, key: k }),
        }
    }
    pub fn retain<F: FnMut(&K, &mut V) -> bool>(&mut self, mut f: F) {
        let mut i = 0;
        while i < SLOTS {
            let keep = match &mut self.slots[i] {
                Some(kv) => {
                    let (k, v) = &mut **kv;
                    f(k, v)
                }
                None => true,
            };
            if !keep {
                self.slots[i] = None;
            }
            i += 1;
        }
    }
    pub fn iter(&self) -> Iter<'_, K, V> {
        Iter { map: self, next: 0 }
    }
    pub fn values(&self) -> impl Iterator<Item = &V> {
        self.iter().map(|(_, v)| v)
    }
    pub fn len(&self) -> usize {
        let mut n = 0;
        let mut i = 0;
        while i < SLOTS {
            if self.slots[i].is_some() {
                n += 1;
            }
            i += 1;
        }
        n
    }
}

pub struct Iter<'a, K, V> {
    map: &'a SlotMap<K, V>,
    next: usize,
}

impl<'a, K, V> Clone for Iter<'a, K, V> {
    fn clone(&self) -> Self {
        Iter { map: self.map, next: self.next }
    }
}

impl<'a, K, V> std::fmt::Debug for Iter<'a, K, V> {
    fn fmt(&self, _f: &mut std::fmt::Formatter<'_>) -> std::fmt::Result {
        Ok(())
    }
}

impl<'a, K, V> Iterator for Iter<'a, K, V> {
    type Item = (&'a K, &'a V);
    fn next(&mut self) -> Option<(&'a K, &'a V)> {
        while self.next < SLOTS {
            let i = self.next;
            self.next += 1;
            if let Some(kv) = &self.map.slots[i] {
                return Some((&kv.0, &kv.1));
            }
        }
        None
    }
    fn size_hint(&self) -> (usize, Option<usize>) {
        (0, Some(SLOTS - self.next.min(SLOTS)))
    }
}

pub enum Entry<'a, K, V> {
    Occupied(OccupiedEntry<'a, K, V>),
    Vacant(VacantEntry<'a, K, V>),
}

pub struct OccupiedEntry<'a, K, V> {
    map: &'a mut SlotMap<K, V>,
    idx: usize,
}

pub struct VacantEntry<'a, K, V> {
    map: &'a mut SlotMap<K, V>,
    key: K,
}

impl<'a, K: PartialEq, V> OccupiedEntry<'a, K, V> {
    pub fn into_mut(self) -> &'a mut V {
        &mut self.map.slots[self.idx].as_mut().unwrap().1
    }
}

impl<'a, K: PartialEq, V> VacantEntry<'a, K, V> {
    pub fn insert(self, v: V) -> &'a mut V {
        let i = self.map.free();
        self.map.slots[i] = Some(Box::new((self.key, v)));
        &mut self.map.slots[i].as_mut().unwrap().1
    }
}

impl<K: Clone, V: Clone> Clone for SlotMap<K, V> {
    fn clone(&self) -> Self {
        SlotMap { slots: self.slots.clone() }
    }
}

impl<K, V> std::fmt::Debug for SlotMap<K, V> {
    fn fmt(&self, _f: &mut std::fmt::Formatter<'_>) -> std::fmt::Result {
        Ok(())
    }
}

impl<K: PartialEq, V: PartialEq> PartialEq for SlotMap<K, V> {
    fn eq(&self, other: &Self) -> bool {
        self.len() == other.len() && self.iter().all(|(k, v)| other.get(k) == Some(v))
    }
}

impl<K: Eq, V: Eq> Eq for SlotMap<K, V> {}
