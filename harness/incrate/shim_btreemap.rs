// T1b — association list (inline array of 4 slots) standing in for std::collections::BTreeMap (snapshot
// transform, cfg(kani) only). Same contract for the operations the trap code uses:
// entry (Vacant: key/insert, Occupied: key/get/get_mut/into_mut), get / get_mut /
// values_mut / iter / iter_mut / IntoIterator for &mut; iteration is in SLOT order (= insertion order while nothing is
// removed), not key order: harnesses whose post-condition could depend on the order insert keys in ascending order.
// Also: a unit stand-in for `Location` in trap records (T7).
#![allow(dead_code)]

/// Capacity of the stand-in (bound of every harness that uses it; exceeding it is an
/// assertion failure, i.e. an inconclusive run, never a silent truncation).
pub const CAP: usize = 4;

// Storage is an inline array of slots (no heap, no shifting): moving large enum-carrying
// records through a heap-allocated Vec makes CBMC encode them bytewise, which ran the
// propositional reduction out of memory. Iteration order is slot order, NOT key order:
// no asserted post-condition depends on the order in which traps are visited.
#[derive(Clone, Debug)]
pub struct BTreeMap<K, V> {
    pub slots: [Option<(K, V)>; CAP],
}

impl<K, V> Default for BTreeMap<K, V> {
    fn default() -> Self {
        BTreeMap { slots: [None, None, None, None] }
    }
}

impl<K: Ord, V> BTreeMap<K, V> {
    pub fn new() -> Self {
        Self::default()
    }
    pub fn len(&self) -> usize {
        let mut n = 0;
        let mut i = 0;
        while i < CAP {
            if self.slots[i].is_some() {
                n += 1;
            }
            i += 1;
        }
        n
    }
    pub fn is_empty(&self) -> bool {
        self.len() == 0
    }
    fn pos(&self, k: &K) -> Option<usize> {
        let mut i = 0;
        while i < CAP {
            if let Some((ki, _)) = &self.slots[i] {
                if *ki == *k {
                    return Some(i);
                }
            }
            i += 1;
        }
        None
    }
    fn free(&self) -> usize {
        let mut i = 0;
        while i < CAP {
            if self.slots[i].is_none() {
                return i;
            }
            i += 1;
        }
        panic!("verif_bt::BTreeMap capacity exceeded (harness bound)");
    }
    pub fn get(&self, k: &K) -> Option<&V> {
        match self.pos(k) {
            Some(i) => self.slots[i].as_ref().map(|(_, v)| v),
            None => None,
        }
    }
    pub fn get_mut(&mut self, k: &K) -> Option<&mut V> {
        match self.pos(k) {
            Some(i) => self.slots[i].as_mut().map(|(_, v)| v),
            None => None,
        }
    }
    pub fn insert(&mut self, k: K, v: V) -> Option<V> {
        match self.pos(&k) {
            Some(i) => match &mut self.slots[i] {
                Some((_, old)) => Some(std::mem::replace(old, v)),
                None => unreachable!(),
            },
            None => {
                let i = self.free();
                self.slots[i] = Some((k, v));
                None
            }
        }
    }
    pub fn remove(&mut self, k: &K) -> Option<V> {
        match self.pos(k) {
            Some(i) => self.slots[i].take().map(|(_, v)| v),
            None => None,
        }
    }
    pub fn entry(&mut self, k: K) -> Entry<'_, K, V> {
        match self.pos(&k) {
            Some(i) => Entry::Occupied(OccupiedEntry { slot: &mut self.slots[i] }),
            None => Entry::Vacant(VacantEntry { target: Target::Map(self), key: k }),
        }
    }
    pub fn iter(&self) -> Iter<'_, K, V> {
        Iter { inner: self.slots.iter() }
    }
    pub fn iter_mut(&mut self) -> IterMut<'_, K, V> {
        IterMut { inner: self.slots.iter_mut() }
    }
    pub fn values_mut(&mut self) -> impl Iterator<Item = &mut V> {
        self.iter_mut().map(|(_, v)| v)
    }
    pub fn values(&self) -> impl Iterator<Item = &V> {
        self.iter().map(|(_, v)| v)
    }
}

#[derive(Clone, Debug)]
pub struct Iter<'a, K, V> {
    inner: std::slice::Iter<'a, Option<(K, V)>>,
}

impl<'a, K, V> Iterator for Iter<'a, K, V> {
    type Item = (&'a K, &'a V);
    fn next(&mut self) -> Option<(&'a K, &'a V)> {
        loop {
            match self.inner.next() {
                Some(Some((k, v))) => return Some((k, v)),
                Some(None) => continue,
                None => return None,
            }
        }
    }
}

pub struct IterMut<'a, K, V> {
    inner: std::slice::IterMut<'a, Option<(K, V)>>,
}

impl<'a, K, V> Iterator for IterMut<'a, K, V> {
    type Item = (&'a K, &'a mut V);
    fn next(&mut self) -> Option<(&'a K, &'a mut V)> {
        loop {
            match self.inner.next() {
                Some(Some((k, v))) => return Some((&*k, v)),
                Some(None) => continue,
                None => return None,
            }
        }
    }
}

impl<'a, K: Ord, V> IntoIterator for &'a mut BTreeMap<K, V> {
    type Item = (&'a K, &'a mut V);
    type IntoIter = IterMut<'a, K, V>;
    fn into_iter(self) -> IterMut<'a, K, V> {
        self.iter_mut()
    }
}

impl<'a, K: Ord, V> IntoIterator for &'a BTreeMap<K, V> {
    type Item = (&'a K, &'a V);
    type IntoIter = Iter<'a, K, V>;
    fn into_iter(self) -> Iter<'a, K, V> {
        self.iter()
    }
}

pub enum Entry<'a, K, V> {
    Vacant(VacantEntry<'a, K, V>),
    Occupied(OccupiedEntry<'a, K, V>),
}

impl<'a, K: Ord, V> Entry<'a, K, V> {
    pub fn key(&self) -> &K {
        match self {
            Entry::Vacant(v) => &v.key,
            Entry::Occupied(o) => o.key(),
        }
    }
    /// Harness entry point: the entry for `key` over one free-standing slot.
    pub fn from_slot(slot: &'a mut Option<(K, V)>, key: K) -> Self {
        if slot.is_some() {
            Entry::Occupied(OccupiedEntry { slot })
        } else {
            Entry::Vacant(VacantEntry { target: Target::Slot(slot), key })
        }
    }
}

pub struct OccupiedEntry<'a, K, V> {
    slot: &'a mut Option<(K, V)>,
}

enum Target<'a, K, V> {
    /// a free-standing slot (harness entry point)
    Slot(&'a mut Option<(K, V)>),
    /// the map: a free slot is only looked for when something is inserted
    Map(&'a mut BTreeMap<K, V>),
}

pub struct VacantEntry<'a, K, V> {
    target: Target<'a, K, V>,
    key: K,
}

impl<'a, K, V> OccupiedEntry<'a, K, V> {
    pub fn key(&self) -> &K {
        match &*self.slot {
            Some((k, _)) => k,
            None => unreachable!(),
        }
    }
    pub fn get(&self) -> &V {
        match &*self.slot {
            Some((_, v)) => v,
            None => unreachable!(),
        }
    }
    pub fn get_mut(&mut self) -> &mut V {
        match &mut *self.slot {
            Some((_, v)) => v,
            None => unreachable!(),
        }
    }
    pub fn into_mut(self) -> &'a mut V {
        match self.slot {
            Some((_, v)) => v,
            None => unreachable!(),
        }
    }
    pub fn insert(&mut self, v: V) -> V {
        std::mem::replace(self.get_mut(), v)
    }
    pub fn remove(self) -> V {
        self.slot.take().unwrap().1
    }
}

impl<'a, K: Ord, V> VacantEntry<'a, K, V> {
    pub fn key(&self) -> &K {
        &self.key
    }
    pub fn insert(self, v: V) -> &'a mut V {
        let slot: &'a mut Option<(K, V)> = match self.target {
            Target::Slot(slot) => slot,
            Target::Map(map) => {
                let i = map.free();
                &mut map.slots[i]
            }
        };
        *slot = Some((self.key, v));
        match slot {
            Some((_, v)) => v,
            None => unreachable!(),
        }
    }
}

/// T7: stand-in for yash_env::source::Location inside trap records. The location of a
/// `trap` command is only stored and displayed; no disposition decision reads it.
#[derive(Clone, Debug, Default, Eq, PartialEq)]
pub struct Location;

/// T7b: stand-in for the command text (`Rc<str>`) of `Action::Command`. The text is only
/// stored, displayed and executed later; no disposition decision reads it. Without the
/// reference-counted pointer a trap record is plain data for CBMC.
#[derive(Clone, Debug, Default, Eq, Hash, PartialEq)]
pub struct Cmd;
