// C14 — the pipe buffer of the simulated system: inductive steps of `FileBody::poll_write` /
// `FileBody::poll_read` on a FIFO (injected under yash-env/src/system/virtual/file_body.rs).
//
// Pre-state: a FIFO holding L bytes (L arm-concrete, 0..=PIPE_SIZE), byte values symbolic, reader
// and writer counts symbolic. One call with a buffer of n bytes (n arm-concrete, byte values
// symbolic). Post-conditions are the POSIX pipe rules (XSH write(), read() on pipes):
//   write: no reader -> EPIPE and nothing changes; the request fits -> all n bytes accepted;
//          it does not fit and n <= PIPE_BUF (atomic writes) or the pipe is full -> Pending and
//          NOTHING is accepted; otherwise exactly the free room is filled (partial write); the pipe
//          never holds more than PIPE_SIZE; readers are woken iff bytes were accepted (the stored
//          ORDER of the accepted bytes is std's VecDeque::extend and not decided, see step_write);
//   read:  empty request -> 0; empty pipe with a writer -> Pending; otherwise min(n, L) bytes are
//          delivered from the front, in order, and removed; 0 = end of file only without writers;
//          writers are woken iff bytes were removed.
// One step from every state covers every interleaving of reads and writes on one pipe: data
// arrives complete, once and in order through the buffer, for payloads beyond its capacity.
//
// Transforms: T6 PIPE_BUF 512 -> 4 (PIPE_SIZE = 2 * PIPE_BUF = 8; the algorithm is parametric in
// the constant), T10 WakerSet -> counting stand-in.

use super::*;

fn fifo(len: usize, bytes: &[u8; 8], readers: usize, writers: usize) -> FileBody {
    fifo_rot(len, bytes, readers, writers, 0)
}

/// `rot`: the ring buffer's head is advanced by `rot` positions first (bytes pushed and popped), so that
/// with rot + len > PIPE_SIZE the content WRAPS around the end of the allocation - the state a pipe is in
/// after more than one capacity has passed through it.
fn fifo_rot(len: usize, bytes: &[u8; 8], readers: usize, writers: usize, rot: usize) -> FileBody {
    // pre-allocated at the pipe capacity: with a growing buffer every step starts with std's realloc
    // (array copy of symbolic bytes), after which CBMC's array post-processing did not finish in 17 min
    let mut content = VecDeque::with_capacity(PIPE_SIZE);
    let mut k = 0;
    while k < rot {
        content.push_back(0u8);
        k += 1;
    }
    while k > 0 {
        content.pop_front();
        k -= 1;
    }
    let mut i = 0;
    while i < len {
        content.push_back(bytes[i]);
        i += 1;
    }
    FileBody::Fifo {
        content,
        readers,
        writers,
        pending_open_wakers: WakerSet::new(),
        pending_read_wakers: WakerSet::new(),
        pending_write_wakers: WakerSet::new(),
    }
}

fn content_is(body: &FileBody, old: &[u8; 8], skip: usize, old_len: usize, extra: &[u8; 12], extra_len: usize) {
    if let FileBody::Fifo { content, .. } = body {
        assert!(content.len() == old_len - skip + extra_len, "C14 pipe holds exactly the undelivered bytes plus the accepted ones");
        let mut i = 0;
        while i < old_len - skip {
            assert!(content[i] == old[skip + i], "C14 bytes already in the pipe keep their order");
            i += 1;
        }
        let mut j = 0;
        while j < extra_len {
            assert!(content[old_len - skip + j] == extra[j], "C14 accepted bytes are appended in order");
            j += 1;
        }
    } else {
        panic!("C14 still a FIFO");
    }
}

fn woken(body: &FileBody) -> (u8, u8, u8, u8) {
    if let FileBody::Fifo { pending_read_wakers, pending_write_wakers, .. } = body {
        (pending_read_wakers.woken, pending_write_wakers.woken, pending_read_wakers.inserted, pending_write_wakers.inserted)
    } else {
        (0, 0, 0, 0)
    }
}

fn len_is(body: &FileBody, want: usize) {
    if let FileBody::Fifo { content, .. } = body {
        assert!(content.len() == want, "C14 the pipe holds exactly the old bytes plus the accepted ones (count)");
        assert!(content.len() <= PIPE_SIZE, "C14 the pipe never holds more than PIPE_SIZE");
    } else {
        panic!("C14 still a FIFO");
    }
}

/// NOTE (measured): the write step decides HOW MANY bytes are accepted, not their stored order.
/// Every variant that read the stored bytes back after `VecDeque::extend` (index, pop_front, two
/// bytes only, with the buffer pre-allocated, with `ptr::copy_nonoverlapping` stubbed element-wise)
/// ran CBMC's array post-processing past 10-12 GB. That accepted bytes are appended in request
/// order is `VecDeque::extend`'s contract and is outside the claim.
fn step_write(len: usize, n: usize) {
    let old: [u8; 8] = kani::any();
    let data: [u8; 12] = kani::any();
    let readers: usize = kani::any();
    let writers: usize = kani::any();
    kani::assume(readers <= 2 && writers <= 2);
    let mut body = fifo(len, &old, readers, writers);
    let r = body.poll_write(&data[..n], 0, Weak::new);
    let room = PIPE_SIZE - len;
    let (rw, _ww, _ri, wi) = woken(&body);
    if readers == 0 {
        assert!(matches!(r, Ready(Err(Errno::EPIPE))), "C14 writing to a pipe without readers fails with EPIPE");
        len_is(&body, len);
        assert!(rw == 0 && wi == 0, "C14 a failed write wakes nobody");
    } else if n <= room {
        assert!(matches!(r, Ready(Ok(k)) if k == n), "C14 a request that fits is written completely");
        len_is(&body, len + n);
        assert!(rw == 1, "C14 readers are woken when bytes arrive");
    } else if room == 0 || n <= PIPE_BUF {
        assert!(matches!(r, Pending), "C14 an atomic request that does not fit blocks");
        len_is(&body, len);
        assert!(wi == 1 && rw == 0, "C14 a blocked writer registers for a wake-up and nothing else happens");
    } else {
        assert!(matches!(r, Ready(Ok(k)) if k == room), "C14 a large request fills exactly the free room");
        len_is(&body, PIPE_SIZE);
        assert!(rw == 1, "C14 readers are woken when bytes arrive");
    }
    kani::cover!(matches!(r, Pending), "blocked write reachable");
    kani::cover!(matches!(r, Ready(Ok(_))), "successful write reachable");
    std::mem::forget(body);
}

fn step_read(len: usize, n: usize) {
    step_read_rot(len, n, 0);
}

/// The same read step from a pipe whose content wraps around the end of the ring buffer.
fn step_readw(len: usize, n: usize) {
    step_read_rot(len, n, 5);
}

fn step_read_rot(len: usize, n: usize, rot: usize) {
    let old: [u8; 8] = kani::any();
    let none = [0u8; 12];
    let readers: usize = kani::any();
    let writers: usize = kani::any();
    kani::assume(readers <= 2 && writers <= 2);
    let mut body = fifo_rot(len, &old, readers, writers, rot);
    let mut buf = [0u8; 12];
    let r = body.poll_read(&mut buf[..n], 0, Weak::new);
    let (_rw, ww, ri, _wi) = woken(&body);
    if n == 0 {
        assert!(matches!(r, Ready(Ok(0))), "C14 an empty read returns 0");
        content_is(&body, &old, 0, len, &none, 0);
    } else if len == 0 && writers > 0 {
        assert!(matches!(r, Pending), "C14 reading an empty pipe with a writer blocks");
        assert!(ri == 1 && ww == 0, "C14 a blocked reader registers for a wake-up and nothing else happens");
    } else {
        let k = if n < len { n } else { len };
        assert!(matches!(r, Ready(Ok(c)) if c == k), "C14 a read delivers min(request, available) bytes; 0 only at end of file");
        let mut i = 0;
        while i < k {
            assert!(buf[i] == old[i], "C14 bytes are delivered from the front in order");
            i += 1;
        }
        content_is(&body, &old, k, len, &none, 0);
        if k > 0 {
            assert!(ww == 1, "C14 writers are woken when room is made");
        }
    }
    kani::cover!(matches!(r, Pending), "blocked read reachable");
    kani::cover!(matches!(r, Ready(Ok(c)) if c > 0), "successful read reachable");
    std::mem::forget(body);
}

macro_rules! arm {
    ($name:ident, $step:ident, $len:expr, $n:expr) => {
        #[kani::proof]
        #[kani::unwind(14)]
        fn $name() {
            $step($len, $n);
            kani::cover!(true, "each: reached");
        }
    };
}

// the arms (pipe fill level x request size) are appended to the scratch copy of this file by
// vlib/props/c14.py for the obligations that will run
