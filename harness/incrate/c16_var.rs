// C16 — variable scope, lifetime and attributes: simulation steps of `VariableSet`
// (injected under yash-env/src/variable.rs, cfg(kani) only; T1 HashMap -> association list,
// T7v Location in variables -> unit stand-in).
//
// Pre-state: a context stack of concrete shape (1-3 contexts, each regular or volatile) and one
// variable name "x" with an entry in a concrete subset of the contexts; the CONTENT of every entry
// (exported, read-only; in the environment step also: has a value or not) is symbolic. A second name "y" with one entry in the
// base context checks non-interference. One operation with a symbolic scope is run on the real
// `VariableSet` and on a reference model (one optional record per context, written from the
// documentation of `VariableSet` / docs/src/language/parameters/variables.md), and the two are
// compared completely: which contexts hold an entry afterwards and with which content, what the
// operation returned, and what `get` / `get_scoped` now see.
//
// Clauses of the property decided: lookup returns the entry of the innermost context that has one;
// popping a context (function return, end of a temporary-assignment command) removes exactly the
// entries of that context and nothing else (locals vanish, globals assigned inside persist); a
// read-only variable is not modified by assignment and not removed by unset, and the failed
// operation changes nothing; temporary (volatile) variables are cloned / lowered as documented.

use super::*;

const TAGS: [&str; 3] = ["v0", "v1", "v2"];

#[derive(Clone, Copy, PartialEq, Eq)]
struct Rec {
    present: bool,
    has_value: bool,
    tag: usize, // which TAGS entry the value is; 9 = freshly assigned value "new"
    exported: bool,
    read_only: bool,
}

const ABSENT: Rec = Rec { present: false, has_value: false, tag: 0, exported: false, read_only: false };

fn mk_var(r: &Rec) -> Variable {
    Variable {
        value: if r.has_value { Some(Value::Scalar(String::from(TAGS[r.tag]))) } else { None },
        last_assigned_location: None,
        is_exported: r.exported,
        read_only_location: if r.read_only { Some(Location::default()) } else { None },
        quirk: None,
    }
}

/// `sym_value`: whether "has a value" is symbolic too. Only the environment step needs it; elsewhere
/// every entry has a value (a conditionally allocated `String` that is later cloned or dropped gave
/// 12.6 M SAT variables and ran out of memory: `String::clone` with a symbolic length).
fn any_rec(tag: usize, sym_value: bool) -> Rec {
    let has_value = if sym_value { kani::any() } else { true };
    Rec { present: true, has_value, tag, exported: kani::any(), read_only: kani::any() }
}

/// Builds the real set and the model. `kinds[i]` = context i is regular; `mask` bit i = "x" has an
/// entry in context i.
fn build(kinds: &[bool], mask: u8) -> (VariableSet, [Rec; 3]) {
    build_with(kinds, mask, false)
}

fn build_with(kinds: &[bool], mask: u8, sym_value: bool) -> (VariableSet, [Rec; 3]) {
    let mut model = [ABSENT; 3];
    let mut stack = crate::verif_inl::InlineVec::new();
    let mut i = 0;
    while i < kinds.len() {
        if mask & (1 << i) != 0 {
            let r = any_rec(i, sym_value);
            stack.push(VariableInContext { variable: mk_var(&r), context_index: i });
            model[i] = r;
        }
        i += 1;
    }
    let mut contexts = Vec::new();
    let mut i = 0;
    while i < kinds.len() {
        contexts.push(if kinds[i] { Context::default() } else { Context::Volatile });
        i += 1;
    }
    let mut all_variables: HashMap<String, crate::verif_inl::InlineVec<VariableInContext>> = Default::default();
    if mask != 0 {
        all_variables.insert(String::from("x"), stack);
    }
    let y = Variable { value: Some(Value::Scalar(String::from("yy"))), ..Default::default() };
    let mut ystack = crate::verif_inl::InlineVec::new();
    ystack.push(VariableInContext { variable: y, context_index: 0 });
    all_variables.insert(String::from("y"), ystack);
    (VariableSet { all_variables, contexts }, model)
}

fn same(v: &Variable, r: &Rec) -> bool {
    let value_ok = match (&v.value, r.has_value) {
        (None, false) => true,
        (Some(Value::Scalar(s)), true) => {
            if r.tag == 9 { s.as_str() == "new" } else { s.as_str() == TAGS[r.tag] }
        }
        _ => false,
    };
    value_ok && v.is_exported == r.exported && v.is_read_only() == r.read_only
}

/// The real set represents exactly the model: the entries of "x" are those of the model, in
/// ascending context order, and "y" is untouched.
fn check_represents(set: &VariableSet, model: &[Rec; 3], ncontexts: usize) {
    assert!(set.contexts.len() == ncontexts, "C16 number of contexts");
    let stack = set.all_variables.get("x");
    let mut pos = 0;
    let mut i = 0;
    while i < 3 {
        if model[i].present {
            assert!(i < ncontexts, "C16 model entry in an existing context");
            match stack {
                Some(st) => {
                    assert!(pos < st.len(), "C16 entry missing in the real set");
                    assert!(st[pos].context_index == i, "C16 entry is in the documented context");
                    assert!(same(&st[pos].variable, &model[i]), "C16 entry has the documented content");
                }
                None => panic!("C16 entry missing in the real set"),
            }
            pos += 1;
        }
        i += 1;
    }
    if let Some(st) = stack {
        assert!(st.len() == pos, "C16 no extra entry in the real set");
    }
    // lookups agree with the model: the innermost context that has an entry
    let mut top = None;
    let mut i = 0;
    while i < 3 {
        if model[i].present {
            top = Some(i);
        }
        i += 1;
    }
    match (set.get("x"), top) {
        (None, None) => {}
        (Some(v), Some(t)) => assert!(same(v, &model[t]), "C16 lookup returns the entry of the innermost context"),
        _ => panic!("C16 lookup presence differs from the model"),
    }
    match set.get("y") {
        Some(v) => assert!(matches!(&v.value, Some(Value::Scalar(s)) if s.as_str() == "yy") && !v.is_exported && !v.is_read_only(), "C16 other variables are untouched"),
        None => panic!("C16 other variables are untouched"),
    }
}

fn topmost_regular(kinds: &[bool]) -> usize {
    let mut r = 0;
    let mut i = 0;
    while i < kinds.len() {
        if kinds[i] {
            r = i;
        }
        i += 1;
    }
    r
}

fn any_scope() -> Scope {
    let k: u8 = kani::any();
    kani::assume(k < 3);
    match k {
        0 => Scope::Global,
        1 => Scope::Local,
        _ => Scope::Volatile,
    }
}

fn scope_index(scope: Scope, kinds: &[bool]) -> usize {
    match scope {
        Scope::Global => 0,
        Scope::Local => topmost_regular(kinds),
        Scope::Volatile => topmost_regular(kinds) + 1,
    }
}

// ------------------------------------------------------------------------------------------------
// steps

/// get_scoped: the entry of the innermost context if that context is within the scope.
fn step_lookup(kinds: &[bool], mask: u8) {
    // shape split on the scope: the whole step runs inside the selected arm (DESIGN.md §3)
    let sel: u8 = kani::any();
    kani::assume(sel < 3);
    if sel == 0 {
        step_lookup_in(kinds, mask, Scope::Global);
    } else if sel == 1 {
        step_lookup_in(kinds, mask, Scope::Local);
    } else {
        step_lookup_in(kinds, mask, Scope::Volatile);
    }
}

fn step_lookup_in(kinds: &[bool], mask: u8, scope: Scope) {
    let (set, model) = build(kinds, mask);
    check_represents(&set, &model, kinds.len());
    let idx = scope_index(scope, kinds);
    let mut top = None;
    let mut i = 0;
    while i < 3 {
        if model[i].present {
            top = Some(i);
        }
        i += 1;
    }
    let got = set.get_scoped("x", scope);
    match top {
        Some(t) if t >= idx => match got {
            Some(v) => assert!(same(v, &model[t]), "C16 scoped lookup returns the innermost entry"),
            None => panic!("C16 scoped lookup misses a visible variable"),
        },
        _ => assert!(got.is_none(), "C16 scoped lookup does not see variables below the scope"),
    }
    kani::cover!(got.is_some(), "scoped lookup finds a variable");
    kani::cover!(got.is_none() && top.is_some(), "scoped lookup hides a lower variable");
    std::mem::forget(set);
}

/// get_or_new(scope) followed by assign("new"): documented lowering / cloning, read-only refusal.
fn step_assign(kinds: &[bool], mask: u8) {
    // shape split on the scope: the whole step runs inside the selected arm (DESIGN.md §3)
    let sel: u8 = kani::any();
    kani::assume(sel < 3);
    if sel == 0 {
        step_assign_in(kinds, mask, Scope::Global);
    } else if sel == 1 {
        step_assign_in(kinds, mask, Scope::Local);
    } else {
        step_assign_in(kinds, mask, Scope::Volatile);
    }
}

fn step_assign_in(kinds: &[bool], mask: u8, scope: Scope) {
    let (mut set, mut model) = build(kinds, mask);
    let n = kinds.len();
    if matches!(scope, Scope::Volatile) {
        // documented precondition: the topmost context must be volatile
        kani::assume(!kinds[n - 1]);
    }
    // reference model of get_or_new
    let target;
    match scope {
        Scope::Global | Scope::Local => {
            let idx = if matches!(scope, Scope::Global) { 0 } else { topmost_regular(kinds) };
            // variables in volatile contexts (within the scope) are removed; the innermost removed one
            // is lowered to the first regular entry found, or to a new entry in the target context
            let mut moved: Option<Rec> = None;
            let mut found = None;
            let mut i = n;
            while i > idx {
                i -= 1;
                if model[i].present {
                    if kinds[i] {
                        found = Some(i);
                        break;
                    } else {
                        if moved.is_none() {
                            moved = Some(model[i]);
                        }
                        model[i] = ABSENT;
                    }
                }
            }
            match found {
                Some(f) => {
                    if let Some(m) = moved {
                        model[f] = m;
                    }
                    target = f;
                }
                None => {
                    model[idx] = match moved {
                        Some(m) => m,
                        None => Rec { present: true, has_value: false, tag: 0, exported: false, read_only: false },
                    };
                    target = idx;
                }
            }
        }
        Scope::Volatile => {
            let t = n - 1;
            if !model[t].present {
                let mut below = None;
                let mut i = 0;
                while i < t {
                    if model[i].present {
                        below = Some(i);
                    }
                    i += 1;
                }
                model[t] = match below {
                    Some(b) => model[b],
                    None => Rec { present: true, has_value: false, tag: 0, exported: false, read_only: false },
                };
            }
            target = t;
        }
    }
    let expect_err = model[target].read_only;
    let mut var = set.get_or_new("x", scope);
    let r = var.assign(Value::Scalar(String::from("new")), None);
    if expect_err {
        assert!(r.is_err(), "C16 assignment to a read-only variable is refused");
    } else {
        assert!(r.is_ok(), "C16 assignment to a writable variable succeeds");
        model[target].has_value = true;
        model[target].tag = 9;
    }
    kani::cover!(r.is_err(), "read-only refusal reachable");
    kani::cover!(r.is_ok(), "assignment reachable");
    std::mem::forget(r);
    check_represents(&set, &model, n);
    std::mem::forget(set);
}

/// unset(scope): removes the entries of the contexts within the scope, unless one of them is
/// read-only - then nothing changes.
fn step_unset(kinds: &[bool], mask: u8) {
    // shape split on the scope: the whole step runs inside the selected arm (DESIGN.md §3)
    let sel: u8 = kani::any();
    kani::assume(sel < 3);
    if sel == 0 {
        step_unset_in(kinds, mask, Scope::Global);
    } else if sel == 1 {
        step_unset_in(kinds, mask, Scope::Local);
    } else {
        step_unset_in(kinds, mask, Scope::Volatile);
    }
}

fn step_unset_in(kinds: &[bool], mask: u8, scope: Scope) {
    let (mut set, mut model) = build(kinds, mask);
    let n = kinds.len();
    let idx = scope_index(scope, kinds);
    let mut blocked = false;
    let mut top = None;
    let mut i = idx;
    while i < 3 {
        if model[i].present {
            if model[i].read_only {
                blocked = true;
            }
            top = Some(i);
        }
        i += 1;
    }
    let top_rec = top.map(|t| model[t]);
    let r = set.unset("x", scope);
    if blocked {
        assert!(r.is_err(), "C16 unsetting a read-only variable is refused");
    } else {
        match (&r, top_rec) {
            (Ok(None), None) => {}
            (Ok(Some(v)), Some(t)) => assert!(same(v, &t), "C16 unset returns the innermost removed variable"),
            _ => panic!("C16 unset result differs from the documentation"),
        }
        let mut i = idx;
        while i < 3 {
            model[i] = ABSENT;
            i += 1;
        }
    }
    kani::cover!(r.is_err(), "read-only refusal reachable");
    kani::cover!(matches!(r, Ok(Some(_))), "removal reachable");
    std::mem::forget(r);
    check_represents(&set, &model, n);
    std::mem::forget(set);
}

/// pop_context: exactly the entries of the popped context vanish.
fn step_pop(kinds: &[bool], mask: u8) {
    let (mut set, mut model) = build(kinds, mask);
    let n = kinds.len();
    set.pop_context_impl();
    model[n - 1] = ABSENT;
    check_represents(&set, &model, n - 1);
    kani::cover!(set.get("x").is_some(), "a variable of an outer context survives");
    std::mem::forget(set);
}

/// push_context: nothing changes for existing variables.
fn step_push(kinds: &[bool], mask: u8) {
    let (mut set, model) = build(kinds, mask);
    let regular: bool = kani::any();
    set.push_context_impl(if regular { Context::default() } else { Context::Volatile });
    check_represents(&set, &model, kinds.len() + 1);
    std::mem::forget(set);
}

/// export / make_read_only through the reference returned by get_or_new in an existing context.
fn step_attrs(kinds: &[bool], mask: u8) {
    let (mut set, mut model) = build(kinds, mask);
    let n = kinds.len();
    let mut top = None;
    let mut i = 0;
    while i < 3 {
        if model[i].present {
            top = Some(i);
        }
        i += 1;
    }
    // the innermost entry is in a regular context: Global scope returns that very entry
    kani::assume(matches!(top, Some(t) if kinds[t]));
    let t = top.unwrap();
    let mut var = set.get_or_new("x", Scope::Global);
    let e: bool = kani::any();
    var.export(e);
    model[t].exported = e;
    if kani::any() {
        var.make_read_only(Location::default());
        model[t].read_only = true;
    }
    check_represents(&set, &model, n);
    std::mem::forget(set);
}

fn step_dbg1(kinds: &[bool], mask: u8) {
    let (mut set, _model) = build(kinds, mask);
    let var = set.get_or_new("x", Scope::Global);
    kani::cover!(var.is_read_only(), "ro");
    std::mem::forget(set);
}
fn step_dbg2(kinds: &[bool], mask: u8) {
    let (mut set, _model) = build(kinds, mask);
    let mut var = set.get_or_new("x", Scope::Global);
    let r = var.assign(Value::Scalar(String::from("new")), None);
    kani::cover!(r.is_ok(), "ok");
    std::mem::forget(r);
    std::mem::forget(set);
}
fn step_dbg3(kinds: &[bool], mask: u8) {
    let (mut set, model) = build(kinds, mask);
    let scope = any_scope();
    kani::assume(!matches!(scope, Scope::Volatile));
    let var = set.get_or_new("x", scope);
    kani::cover!(var.is_read_only(), "ro");
    let _ = model;
    std::mem::forget(set);
}

/// env_c_strings: the environment for executed programs is exactly the VISIBLE variables that are
/// exported and have a value, as `name=value`.
fn step_env(kinds: &[bool], mask: u8) {
    let (set, model) = build_with(kinds, mask, true);
    let mut top = None;
    let mut i = 0;
    while i < 3 {
        if model[i].present {
            top = Some(i);
        }
        i += 1;
    }
    let env = set.env_c_strings();
    // only the NUMBER of entries is asserted: reading the bytes of the built strings back (memory written by
    // push_str / CString::new) is what CBMC's array post-processing does not finish
    match top {
        Some(t) if model[t].exported && model[t].has_value => {
            assert!(env.len() == 1, "C16 exactly the exported visible variable is in the environment");
        }
        _ => assert!(env.is_empty(), "C16 a variable that is hidden, not exported or has no value is not in the environment"),
    }
    kani::cover!(env.len() == 1, "exported variable reachable");
    kani::cover!(env.is_empty() && top.is_some(), "non-exported variable reachable");
    std::mem::forget(env);
    std::mem::forget(set);
}

/// Stand-ins with the same contract for the two searches `env_c_strings` performs on every string (is there an `=` in
/// the name, is there a NUL in the result): none of the strings of these harnesses contains either.
pub fn char_not_contained(_c: char, haystack: &str) -> bool {
    let b = haystack.as_bytes();
    let mut i = 0;
    let mut found = false;
    while i < b.len() {
        if b[i] == b'=' {
            found = true;
        }
        i += 1;
    }
    found
}

pub fn cstring_unchecked<T: Into<Vec<u8>>>(bytes: T) -> Result<std::ffi::CString, std::ffi::NulError> {
    Ok(unsafe { std::ffi::CString::from_vec_unchecked(bytes.into()) })
}

macro_rules! arm {
    ($name:ident, step_env, $kinds:expr, $mask:expr) => {
        #[kani::proof]
        #[kani::unwind(6)]
        #[kani::stub(<char as core::str::pattern::Pattern>::is_contained_in, char_not_contained)]
        #[kani::stub(std::ffi::CString::new, cstring_unchecked)]
        fn $name() {
            step_env(&$kinds, $mask);
            kani::cover!(true, "each: reached");
        }
    };
    ($name:ident, $step:ident, $kinds:expr, $mask:expr) => {
        #[kani::proof]
        #[kani::unwind(6)]
        fn $name() {
            $step(&$kinds, $mask);
            kani::cover!(true, "each: reached");
        }
    };
}

// the arms (one #[kani::proof] per step x context shape x occupancy mask) are appended to the scratch
// copy of this file by vlib/props/c16.py for the obligations that will run (tools/gen_c16_arms.py)
