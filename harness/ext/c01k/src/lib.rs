//! External Kani harness crate (public API only): field-splitting and quote-removal
//! kernels of C01.
#![cfg(kani)]

use std::ops::Range;
use yash_env::semantics::expansion::attr::{AttrChar, AttrField, Origin};
use yash_env::semantics::expansion::attr_strip::Strip as _;
use yash_env::semantics::expansion::quote_removal::skip_quotes;
use yash_env::semantics::expansion::split::{Class, Ifs, split_into};
use yash_env::source::Location;

fn any_origin() -> Origin {
    let k: u8 = kani::any();
    kani::assume(k < 3);
    match k {
        0 => Origin::Literal,
        1 => Origin::HardExpansion,
        _ => Origin::SoftExpansion,
    }
}

// ---------------------------------------------------------------------------
// (a) classification of ONE character from 16 candidates x all attributes, per concrete IFS.
// Spec (XCU 2.6.5): only an unquoted, non-quoting character that results from a
// parameter/command/arithmetic expansion ("soft expansion") can be a separator; it is
// one iff it occurs in IFS; it is IFS white space iff it is <space>, <tab> or <newline>.
// ---------------------------------------------------------------------------
/// Candidate characters: every member of the IFS values used below plus characters outside
/// them, including white space that is not in IFS (\r), NUL, DEL and three non-ASCII
/// characters. The character is arm-concrete (a symbolic needle sends `str::contains` into
/// std's generic substring searcher: neither all of Unicode nor all of ASCII finished in
/// 15 min); origin and the two quoting attributes are symbolic in every arm.
const CANDIDATES: [char; 16] = [' ', '\t', '\n', '-', ':', 'a', 'b', '\r', '\0', '\u{7f}', '$', '\\', '\u{a0}', '\u{3000}', 'é', 'z'];

fn check_one(ifs: &Ifs, members: &[char], c: char) {
    let origin = any_origin();
    let is_quoted: bool = kani::any();
    let is_quoting: bool = kani::any();
    let got = ifs.classify_attr(AttrChar { value: c, origin, is_quoted, is_quoting });
    let mut member = false;
    let mut i = 0;
    while i < members.len() {
        member |= members[i] == c;
        i += 1;
    }
    let separator = member && !is_quoted && !is_quoting && origin == Origin::SoftExpansion;
    let want = if !separator {
        Class::NonIfs
    } else if c == ' ' || c == '\t' || c == '\n' {
        Class::IfsWhitespace
    } else {
        Class::IfsNonWhitespace
    };
    assert!(got == want, "C01 IFS classification of one character");
    if member {
        kani::cover!(want == Class::NonIfs, "IFS character protected by quoting or origin");
        kani::cover!(separator, "separator reachable");
    }
}

fn check_classify(ifs_str: &'static str, members: &[char]) {
    let ifs = Ifs::new(ifs_str);
    let sel: u8 = kani::any();
    kani::assume(sel < 16);
    macro_rules! arm {
        ($i:expr) => {
            if sel == $i {
                check_one(&ifs, members, CANDIDATES[$i]);
            }
        };
    }
    arm!(0); arm!(1); arm!(2); arm!(3); arm!(4); arm!(5); arm!(6); arm!(7);
    arm!(8); arm!(9); arm!(10); arm!(11); arm!(12); arm!(13); arm!(14); arm!(15);
    kani::cover!(sel == 15, "last arm reachable");
}

macro_rules! classify_harness {
    ($name:ident, $s:expr, $m:expr) => {
        #[kani::proof]
        #[kani::unwind(10)]
        fn $name() {
            check_classify($s, &$m);
        }
    };
}
classify_harness!(c01_classify_default, Ifs::DEFAULT, [' ', '\t', '\n']);
classify_harness!(c01_classify_empty, "", ([] as [char; 0]));
classify_harness!(c01_classify_space, " ", [' ']);
classify_harness!(c01_classify_dash, "-", ['-']);
classify_harness!(c01_classify_space_dash, " -", [' ', '-']);
classify_harness!(c01_classify_dash_colon, "-:", ['-', ':']);
classify_harness!(c01_classify_mixed, " \t-:", [' ', '\t', '-', ':']);
classify_harness!(c01_classify_letter, "a", ['a']);
classify_harness!(c01_classify_colon_nl, ":\n", [':', '\n']);

// ---------------------------------------------------------------------------
// (b) the splitting state machine on every class sequence up to a length bound, with
// classify_attr replaced by its specification for IFS=" -" (discharged by (a)).
// ---------------------------------------------------------------------------
fn spec_classify_attr<'a>(_ifs: &Ifs<'a>, c: AttrChar) -> Class
where
    'a: 'a,
{
    if c.is_quoted || c.is_quoting || c.origin != Origin::SoftExpansion {
        Class::NonIfs
    } else if c.value == ' ' {
        Class::IfsWhitespace
    } else if c.value == '-' {
        Class::IfsNonWhitespace
    } else {
        Class::NonIfs
    }
}

fn class_of(c: &AttrChar) -> u8 {
    // 0 non-IFS, 1 IFS white space, 2 other IFS character
    if c.is_quoted || c.is_quoting || c.origin != Origin::SoftExpansion {
        0
    } else if c.value == ' ' {
        1
    } else if c.value == '-' {
        2
    } else {
        0
    }
}

/// Reference splitter (XCU 2.6.5) over a class sequence; returns up to 8 field ranges.
fn ref_split(cls: &[u8]) -> ([Range<usize>; 8], usize) {
    let mut out: [Range<usize>; 8] = [0..0, 0..0, 0..0, 0..0, 0..0, 0..0, 0..0, 0..0];
    let mut n = 0;
    let len = cls.len();
    let mut i = 0;
    // leading IFS white space is ignored
    while i < len && cls[i] == 1 {
        i += 1;
    }
    while i < len {
        let start = i;
        while i < len && cls[i] == 0 {
            i += 1;
        }
        let end = i;
        // the field is delimited here (by a separator, or by the end of the input if non-empty)
        if i < len || end > start {
            out[n] = start..end;
            n += 1;
        }
        // one delimiter: IFS white space*, at most one other IFS character, IFS white space*
        while i < len && cls[i] == 1 {
            i += 1;
        }
        if i < len && cls[i] == 2 {
            i += 1;
            while i < len && cls[i] == 1 {
                i += 1;
            }
        }
    }
    (out, n)
}

fn any_chars<const N: usize>() -> [AttrChar; N] {
    let mut a = [AttrChar { value: 'a', origin: Origin::Literal, is_quoted: false, is_quoting: false }; N];
    let mut i = 0;
    while i < N {
        let v: u8 = kani::any();
        kani::assume(v < 3);
        a[i] = AttrChar {
            value: match v {
                0 => 'a',
                1 => ' ',
                _ => '-',
            },
            origin: any_origin(),
            is_quoted: kani::any(),
            is_quoting: kani::any(),
        };
        i += 1;
    }
    a
}

/// The iterator alone (no heap): every sequence of N characters.
fn check_ranges<const N: usize>() {
    let chars = any_chars::<N>();
    let mut cls = [0u8; N];
    let mut i = 0;
    while i < N {
        cls[i] = class_of(&chars[i]);
        i += 1;
    }
    let (want, n) = ref_split(&cls);
    let ifs = Ifs::new(" -");
    let mut it = ifs.ranges(chars.iter().copied());
    let mut k = 0;
    while k < n {
        let r = it.next();
        assert!(r == Some(want[k].clone()), "C01 field range");
        k += 1;
    }
    assert!(it.next().is_none(), "C01 no further field");
    assert!(it.next().is_none(), "C01 iterator is fused");
    kani::cover!(n >= 2, "two or more fields");
    if N >= 2 {
        kani::cover!(n >= 1 && want[0].start == want[0].end, "empty field from a non-white-space separator");
    }
}

/// split_into on a real AttrField (heap, Location): fields carry the characters of their range
/// with all attributes, and the origin of the field.
#[allow(dead_code)]
fn check_split_into<const N: usize>(loc: &Location) {
    let chars = any_chars::<N>();
    let mut cls = [0u8; N];
    let mut i = 0;
    while i < N {
        cls[i] = class_of(&chars[i]);
        i += 1;
    }
    let (want, n) = ref_split(&cls);
    let ifs = Ifs::new(" -");
    let field = AttrField { chars: chars.to_vec(), origin: loc.clone() };
    let mut results: Vec<AttrField> = Vec::new();
    split_into(field, &ifs, &mut results);
    assert!(results.len() == n, "C01 number of fields");
    let mut k = 0;
    while k < n {
        let f = &results[k];
        let r = want[k].clone();
        assert!(f.chars.len() == r.end - r.start, "C01 field length");
        let mut j = 0;
        while j < f.chars.len() {
            let (a, b) = (f.chars[j], chars[r.start + j]);
            assert!(a.value == b.value && a.origin == b.origin && a.is_quoted == b.is_quoted && a.is_quoting == b.is_quoting,
                "C01 field characters and attributes preserved");
            j += 1;
        }
        k += 1;
    }
    kani::cover!(n >= 2, "two or more fields");
    std::mem::forget(results);
}

macro_rules! ranges_harness {
    ($name:ident, $n:literal, $u:literal) => {
        #[kani::proof]
        #[kani::unwind($u)] // = length + 3: every loop here is bounded by the length (+ end of input)
        #[kani::stub(yash_env::semantics::expansion::split::Ifs::classify_attr, spec_classify_attr)]
        fn $name() {
            check_ranges::<$n>();
            kani::cover!(true, "each: reached");
        }
    };
}
ranges_harness!(c01_ranges_0, 0, 3);
ranges_harness!(c01_ranges_1, 1, 4);
ranges_harness!(c01_ranges_2, 2, 5);
ranges_harness!(c01_ranges_3, 3, 6);
ranges_harness!(c01_ranges_4, 4, 7);
ranges_harness!(c01_ranges_5, 5, 8);
ranges_harness!(c01_ranges_6, 6, 9);
ranges_harness!(c01_ranges_7, 7, 10);

// check_split_into with one or more characters is not registered: even with one character CBMC
// ran out of memory (the Vec<AttrField> results, each owning a Location, are encoded bytewise).
// The empty field is decided for both kinds of IFS: an empty unquoted expansion result yields no
// field at all, whatever IFS is (XCU 2.6.5).
fn check_split_into_empty(ifs_str: &'static str) {
    let loc = Location::dummy("");
    let keep = loc.clone();
    let ifs = Ifs::new(ifs_str);
    let field = AttrField { chars: Vec::new(), origin: loc.clone() };
    let mut results: Vec<AttrField> = Vec::new();
    split_into(field, &ifs, &mut results);
    assert!(results.is_empty(), "C01 an empty expansion result yields no field, whatever IFS is");
    kani::cover!(true, "reached");
    std::mem::forget(results);
    std::mem::forget(keep);
    std::mem::forget(loc);
}

#[kani::proof]
#[kani::unwind(4)]
fn c01_split_into_empty_field_ifs_empty() {
    check_split_into_empty("");
}

#[kani::proof]
#[kani::unwind(4)]
fn c01_split_into_empty_field_ifs_space_dash() {
    check_split_into_empty(" -");
}

// ---------------------------------------------------------------------------
// (c) quote removal + attribute stripping: the values of the characters that are not
// quoting characters, in order.
// ---------------------------------------------------------------------------
fn check_strip<const N: usize>() {
    let mut chars = [AttrChar { value: 'a', origin: Origin::Literal, is_quoted: false, is_quoting: false }; N];
    let mut i = 0;
    while i < N {
        chars[i] = AttrChar { value: kani::any(), origin: any_origin(), is_quoted: kani::any(), is_quoting: kani::any() };
        i += 1;
    }
    let out: Vec<char> = skip_quotes(chars.iter().copied()).strip().collect();
    let mut k = 0;
    let mut i = 0;
    while i < N {
        if !chars[i].is_quoting {
            assert!(k < out.len() && out[k] == chars[i].value, "C01 quote removal keeps every non-quoting character in order");
            k += 1;
        }
        i += 1;
    }
    assert!(out.len() == k, "C01 quote removal drops exactly the quoting characters");
    if N >= 2 {
        kani::cover!(k == N - 1, "one quoting character removed");
    }
    std::mem::forget(out);
}

macro_rules! strip_harness {
    ($name:ident, $n:literal) => {
        #[kani::proof]
        #[kani::unwind(8)]
        fn $name() {
            check_strip::<$n>();
            kani::cover!(true, "each: reached");
        }
    };
}
strip_harness!(c01_strip_0, 0);
strip_harness!(c01_strip_1, 1);
strip_harness!(c01_strip_2, 2);
strip_harness!(c01_strip_3, 3);
strip_harness!(c01_strip_4, 4);
strip_harness!(c01_strip_5, 5);
