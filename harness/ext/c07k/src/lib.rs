//! External Kani harness crate (public API only): C07 for strings of ONE character, the
//! character ranging over all of Unicode, and for the empty string.
//!
//! Oracle: a reference reader of one shell word (XCU 2.2 quoting, 2.3 token recognition,
//! 2.6 expansions, 2.13 patterns) that asks the REAL lexer which characters are blanks
//! and token delimiters, so a disagreement between quoter and lexer about white space
//! surfaces as a counterexample.
#![cfg(kani)]
#![feature(formatting_options)]

use yash_syntax::parser::lex::{is_blank, is_token_delimiter_char};

/// Would the one-character word `c`, written without any quoting, be read back by the
/// shell as the single field "c"?
fn read_back_literally(c: char) -> bool {
    // 2.3: delimiters end/are tokens; newline is a delimiter too
    if is_token_delimiter_char(c) || is_blank(c) || c == '\n' {
        return false;
    }
    match c {
        // 2.2 quoting characters
        '\\' | '\'' | '"' => false,
        // 2.6 expansions
        '$' | '`' => false,
        // 2.3/2.6.1: comment and tilde in first position
        '#' | '~' => false,
        // 2.13 patterns: a lone * or ? is subject to pathname expansion
        '*' | '?' => false,
        // = makes a one-character word an (invalid) assignment candidate in command position; yash
        // quotes it so that listings such as `alias` stay re-readable
        _ => true,
    }
}

fn one_char_str(c: char, buf: &mut [u8; 4]) -> &str {
    c.encode_utf8(buf)
}

/// Bound: ONE character, any Unicode scalar value.
/// Decided: whenever the unquoted character would not be read back literally, the quoter
/// decides to quote.
#[kani::proof]
#[kani::unwind(6)]
fn c07_one_char_decision() {
    let c: char = kani::any();
    let mut buf = [0u8; 4];
    let s = one_char_str(c, &mut buf);
    let q = yash_quote::quoted(s);
    if !read_back_literally(c) {
        assert!(q.needs_quoting(), "C07 a character the shell would not read back literally must be quoted");
    }
    kani::cover!(q.needs_quoting() && c as u32 > 0x7f, "non-ASCII character that needs quoting");
    kani::cover!(!q.needs_quoting(), "character that needs no quoting");
}

/// The empty string must be quoted (an unquoted empty word is no word at all).
#[kani::proof]
#[kani::unwind(6)]
fn c07_empty_string() {
    let q = yash_quote::quoted("");
    assert!(q.needs_quoting(), "C07 the empty string needs quoting");
    kani::cover!(true, "reached");
}

// ---------------------------------------------------------------------------------------------
// The printed form, for strings of two and three characters.
//
// `Display for Quoted` is driven into a fixed-size sink (no heap); the printed bytes are read back
// by a reference reader of ONE shell word written from XCU 2.2 (quoting), 2.3 (token recognition),
// 2.6 (expansions), 2.13 (patterns). Asserted: the reader yields exactly the original string as one
// field and consumes the whole output.
//
// Transform T8 (part of the claim): in the snapshot of yash-quote the one formatted write
// `write!(f, "'{}'", self.raw)` is spelled out as write_char / write_str / write_char under
// cfg(kani) - core::fmt's argument machinery (function pointers per argument) ran CBMC out of
// memory (measured: 14 GB after 20 min for ONE character). All other writes are the real code.
// Stub (part of the claim): `<&str as Pattern>::is_contained_in` - std's substring search, which
// dispatches to SIMD / two-way searchers - is replaced by a naive search with the same contract;
// `core::slice::memchr::memchr` (word-at-a-time search behind str::find(char)) likewise.

struct Sink {
    buf: [u8; 32],
    len: usize,
}

impl core::fmt::Write for Sink {
    fn write_str(&mut self, s: &str) -> core::fmt::Result {
        let b = s.as_bytes();
        let mut i = 0;
        while i < b.len() {
            if self.len >= 32 {
                return Err(core::fmt::Error);
            }
            self.buf[self.len] = b[i];
            self.len += 1;
            i += 1;
        }
        Ok(())
    }
}

pub fn naive_contains<'b>(needle: &'b str, haystack: &str) -> bool
where
    'b: 'b,
{
    let n = needle.as_bytes();
    let h = haystack.as_bytes();
    if n.len() > h.len() {
        return false;
    }
    let mut i = 0;
    while i + n.len() <= h.len() {
        let mut j = 0;
        let mut eq = true;
        while j < n.len() {
            if h[i + j] != n[j] {
                eq = false;
            }
            j += 1;
        }
        if eq {
            return true;
        }
        i += 1;
    }
    false
}

pub fn naive_memchr(x: u8, text: &[u8]) -> Option<usize> {
    let mut i = 0;
    while i < text.len() {
        if text[i] == x {
            return Some(i);
        }
        i += 1;
    }
    None
}

/// Is the unquoted word `s` read back as the single literal field `s`? (`s` non-empty, chars given)
fn unquoted_is_literal(cs: &[char]) -> bool {
    let n = cs.len();
    let mut i = 0;
    while i < n {
        let c = cs[i];
        if is_token_delimiter_char(c) || is_blank(c) || c == '\n' {
            return false;
        }
        if matches!(c, '\\' | '\'' | '"' | '$' | '`' | '*' | '?') {
            return false;
        }
        // comment / tilde expansion in first position; tilde after a colon matters in assignment values
        if (c == '#' || c == '~') && i == 0 {
            return false;
        }
        if c == '~' && i > 0 && cs[i - 1] == ':' {
            return false;
        }
        // an = after the first character makes the word an assignment in command position
        if c == '=' && i > 0 {
            return false;
        }
        // bracket expression: [ ... ] with at least one member is a pattern
        if c == '[' {
            let mut j = i + 2;
            while j < n {
                if cs[j] == ']' {
                    return false;
                }
                j += 1;
            }
        }
        // brace expansion (yash extension): { , } or { .. }
        if c == '{' {
            let mut j = i + 1;
            let mut comma = false;
            while j < n {
                if cs[j] == ',' || (cs[j] == '.' && j + 1 < n && cs[j + 1] == '.') {
                    comma = true;
                }
                if cs[j] == '}' && comma {
                    return false;
                }
                j += 1;
            }
        }
        i += 1;
    }
    true
}

/// Reference reader of one word: returns Some(number of bytes of `want` matched) iff `out` is one
/// complete word whose quote-removed value is exactly `want`.
fn reads_back_as(out: &[u8], want: &[u8]) -> bool {
    let n = out.len();
    let mut i = 0; // position in out
    let mut k = 0; // position in want
    if n == 0 {
        return false;
    }
    if out[0] == b'\'' {
        // '...' : everything up to the next ' is literal
        i = 1;
        while i < n && out[i] != b'\'' {
            if k >= want.len() || want[k] != out[i] {
                return false;
            }
            k += 1;
            i += 1;
        }
        return i + 1 == n && k == want.len();
    }
    if out[0] == b'"' {
        i = 1;
        while i < n && out[i] != b'"' {
            let mut c = out[i];
            if c == b'$' || c == b'`' {
                return false; // live expansion inside double quotes
            }
            if c == b'\\' {
                if i + 1 >= n {
                    return false;
                }
                let d = out[i + 1];
                if d == b'$' || d == b'`' || d == b'"' || d == b'\\' {
                    c = d;
                    i += 1;
                } else if d == b'\n' {
                    return false; // line continuation would remove both
                }
                // otherwise the backslash is literal
            }
            if k >= want.len() || want[k] != c {
                return false;
            }
            k += 1;
            i += 1;
        }
        return i + 1 == n && k == want.len();
    }
    false
}

fn printed_form(ws: &[usize]) {
    let mut raw = [0u8; 12];
    let mut cs = ['\0'; 4];
    let mut len = 0;
    let mut k = 0;
    while k < ws.len() {
        let c: char = kani::any();
        kani::assume(c.len_utf8() == ws[k]);
        let mut tmp = [0u8; 4];
        c.encode_utf8(&mut tmp);
        let mut i = 0;
        while i < ws[k] {
            raw[len + i] = tmp[i];
            i += 1;
        }
        cs[k] = c;
        len += ws[k];
        k += 1;
    }
    let s = unsafe { core::str::from_utf8_unchecked(&raw[..len]) };
    let q = yash_quote::quoted(s);
    let mut sink = Sink { buf: [0; 32], len: 0 };
    // Display::fmt is called directly on a Formatter over the sink (no format_args! machinery)
    let r = {
        let mut f = core::fmt::Formatter::new(&mut sink, core::fmt::FormattingOptions::new());
        core::fmt::Display::fmt(&q, &mut f)
    };
    assert!(r.is_ok(), "C07 printing succeeds");
    let out = &sink.buf[..sink.len];
    if !q.needs_quoting() {
        assert!(sink.len == len, "C07 unquoted output is the string itself");
        let mut i = 0;
        while i < len {
            assert!(out[i] == raw[i], "C07 unquoted output is the string itself");
            i += 1;
        }
        assert!(unquoted_is_literal(&cs[..ws.len()]), "C07 a string printed without quotes is read back literally");
    } else {
        assert!(reads_back_as(out, &raw[..len]), "C07 the quoted form reads back as exactly the original string");
    }
    kani::cover!(!q.needs_quoting(), "unquoted output reachable");
    kani::cover!(q.needs_quoting() && out[0] == b'\'', "single-quoted output reachable");
    kani::cover!(q.needs_quoting() && out[0] == b'"', "double-quoted output reachable");
}

macro_rules! pf {
    ($name:ident, $ws:expr) => {
        #[kani::proof] // unwinding bound passed per harness: 2 * bytes + 4
        #[kani::stub(<&str as core::str::pattern::Pattern>::is_contained_in, naive_contains)]
        #[kani::stub(core::slice::memchr::memchr, naive_memchr)]
        fn $name() {
            printed_form(&$ws);
            kani::cover!(true, "each: reached");
        }
    };
}
pf!(c07_form_w1, [1]);
pf!(c07_form_w2, [2]);
pf!(c07_form_w3, [3]);
pf!(c07_form_w4, [4]);
pf!(c07_form_w11, [1, 1]);
pf!(c07_form_w12, [1, 2]);
pf!(c07_form_w21, [2, 1]);
pf!(c07_form_w13, [1, 3]);
pf!(c07_form_w31, [3, 1]);
pf!(c07_form_w14, [1, 4]);
pf!(c07_form_w41, [4, 1]);
pf!(c07_form_w111, [1, 1, 1]);
pf!(c07_form_w112, [1, 1, 2]);
pf!(c07_form_w1111, [1, 1, 1, 1]);
