//! External Kani harness crate (public API only): C07 for strings of ONE character, the
//! character ranging over all of Unicode, and for the empty string.
//!
//! Oracle: a reference reader of one shell word (XCU 2.2 quoting, 2.3 token recognition,
//! 2.6 expansions, 2.13 patterns) that asks the REAL lexer which characters are blanks
//! and token delimiters, so a disagreement between quoter and lexer about white space
//! surfaces as a counterexample.
#![cfg(kani)]

use yash_syntax::parser::lex::{is_blank, is_token_delimiter_char};

/// Would the one-character word `c`, written without any quoting, be read back by the
/// shell as the single field "c"?
fn read_back_literally(c: char) -> bool {
    // 2.3: delimiters end/are tokens; newline is a delimiter too
    if is_token_delimiter_char(c) || is_blank(c) || c == '\n' {
        return false;
    }
    match c {
        // 2.2 quoting characters
        '\\' | '\'' | '"' => false,
        // 2.6 expansions
        '$' | '`' => false,
        // 2.3/2.6.1: comment and tilde in first position
        '#' | '~' => false,
        // 2.13 patterns: a lone * or ? is subject to pathname expansion
        '*' | '?' => false,
        // = makes a one-character word an (invalid) assignment candidate in command position; yash
        // quotes it so that listings such as `alias` stay re-readable
        _ => true,
    }
}

fn one_char_str(c: char, buf: &mut [u8; 4]) -> &str {
    c.encode_utf8(buf)
}

/// Bound: ONE character, any Unicode scalar value.
/// Decided: whenever the unquoted character would not be read back literally, the quoter
/// decides to quote.
#[kani::proof]
#[kani::unwind(6)]
fn c07_one_char_decision() {
    let c: char = kani::any();
    let mut buf = [0u8; 4];
    let s = one_char_str(c, &mut buf);
    let q = yash_quote::quoted(s);
    if !read_back_literally(c) {
        assert!(q.needs_quoting(), "C07 a character the shell would not read back literally must be quoted");
    }
    kani::cover!(q.needs_quoting() && c as u32 > 0x7f, "non-ASCII character that needs quoting");
    kani::cover!(!q.needs_quoting(), "character that needs no quoting");
}

/// The empty string must be quoted (an unquoted empty word is no word at all).
#[kani::proof]
#[kani::unwind(6)]
fn c07_empty_string() {
    let q = yash_quote::quoted("");
    assert!(q.needs_quoting(), "C07 the empty string needs quoting");
    kani::cover!(true, "reached");
}

/// Collects what Display writes, without allocation.
struct Sink {
    buf: [char; 8],
    len: usize,
}
impl std::fmt::Write for Sink {
    fn write_str(&mut self, s: &str) -> std::fmt::Result {
        for ch in s.chars() {
            if self.len >= 8 {
                return Err(std::fmt::Error);
            }
            self.buf[self.len] = ch;
            self.len += 1;
        }
        Ok(())
    }
}

/// Reference reader for a fully quoted word: '...' yields its content verbatim (no ' inside);
/// "..." yields its content with \ removed before " ` $ \ ; an unescaped " ` $ inside is not
/// literal. Returns None if the text is not one well-formed quoted word.
fn read_quoted(w: &[char]) -> Option<([char; 8], usize)> {
    let mut out = ['\0'; 8];
    let mut n = 0;
    if w.len() < 2 {
        return None;
    }
    let q = w[0];
    if w[w.len() - 1] != q {
        return None;
    }
    let inner = &w[1..w.len() - 1];
    if q == '\'' {
        let mut i = 0;
        while i < inner.len() {
            if inner[i] == '\'' {
                return None;
            }
            out[n] = inner[i];
            n += 1;
            i += 1;
        }
        Some((out, n))
    } else if q == '"' {
        let mut i = 0;
        while i < inner.len() {
            let ch = inner[i];
            if ch == '\\' {
                if i + 1 < inner.len() && matches!(inner[i + 1], '"' | '`' | '$' | '\\') {
                    out[n] = inner[i + 1];
                    n += 1;
                    i += 2;
                    continue;
                }
                // backslash before any other character stays
                out[n] = ch;
                n += 1;
                i += 1;
                continue;
            }
            if matches!(ch, '"' | '`' | '$') {
                return None;
            }
            out[n] = ch;
            n += 1;
            i += 1;
        }
        Some((out, n))
    } else {
        None
    }
}

/// Bound: ONE character from a 12-symbol alphabet covering every branch of the quoting
/// form (', ", `, $, \, space, newline, *, a, #, ~, e-acute), chosen symbolically.
/// Decided: the text `quote` prints reads back as exactly that character.
#[kani::proof]
#[kani::unwind(10)]
fn c07_one_char_form() {
    let k: u8 = kani::any();
    kani::assume(k < 12);
    let c = match k {
        0 => '\'',
        1 => '"',
        2 => '`',
        3 => '$',
        4 => '\\',
        5 => ' ',
        6 => '\n',
        7 => '*',
        8 => 'a',
        9 => '#',
        10 => '~',
        _ => 'é',
    };
    let mut buf = [0u8; 4];
    let s = one_char_str(c, &mut buf);
    let q = yash_quote::quoted(s);
    let mut sink = Sink { buf: ['\0'; 8], len: 0 };
    use std::fmt::Write as _;
    write!(sink, "{}", q).unwrap();
    let w = &sink.buf[..sink.len];
    if q.needs_quoting() {
        match read_quoted(w) {
            Some((out, n)) => assert!(n == 1 && out[0] == c, "C07 quoted form reads back as the character"),
            None => panic!("C07 quoted form is not one well-formed quoted word"),
        }
    } else {
        assert!(w.len() == 1 && w[0] == c && read_back_literally(c), "C07 unquoted output only for literal characters");
    }
    kani::cover!(c == '\'' && w.len() == 3 && w[0] == '"', "single quote forces double quotes");
    kani::cover!(!q.needs_quoting(), "unquoted output");
}
