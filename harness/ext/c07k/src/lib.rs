//! External Kani harness crate (public API only): C07 for strings of ONE character, the
//! character ranging over all of Unicode, and for the empty string.
//!
//! Oracle: a reference reader of one shell word (XCU 2.2 quoting, 2.3 token recognition,
//! 2.6 expansions, 2.13 patterns) that asks the REAL lexer which characters are blanks
//! and token delimiters, so a disagreement between quoter and lexer about white space
//! surfaces as a counterexample.
#![cfg(kani)]

use yash_syntax::parser::lex::{is_blank, is_token_delimiter_char};

/// Would the one-character word `c`, written without any quoting, be read back by the
/// shell as the single field "c"?
fn read_back_literally(c: char) -> bool {
    // 2.3: delimiters end/are tokens; newline is a delimiter too
    if is_token_delimiter_char(c) || is_blank(c) || c == '\n' {
        return false;
    }
    match c {
        // 2.2 quoting characters
        '\\' | '\'' | '"' => false,
        // 2.6 expansions
        '$' | '`' => false,
        // 2.3/2.6.1: comment and tilde in first position
        '#' | '~' => false,
        // 2.13 patterns: a lone * or ? is subject to pathname expansion
        '*' | '?' => false,
        // = makes a one-character word an (invalid) assignment candidate in command position; yash
        // quotes it so that listings such as `alias` stay re-readable
        _ => true,
    }
}

fn one_char_str(c: char, buf: &mut [u8; 4]) -> &str {
    c.encode_utf8(buf)
}

/// Bound: ONE character, any Unicode scalar value.
/// Decided: whenever the unquoted character would not be read back literally, the quoter
/// decides to quote.
#[kani::proof]
#[kani::unwind(6)]
fn c07_one_char_decision() {
    let c: char = kani::any();
    let mut buf = [0u8; 4];
    let s = one_char_str(c, &mut buf);
    let q = yash_quote::quoted(s);
    if !read_back_literally(c) {
        assert!(q.needs_quoting(), "C07 a character the shell would not read back literally must be quoted");
    }
    kani::cover!(q.needs_quoting() && c as u32 > 0x7f, "non-ASCII character that needs quoting");
    kani::cover!(!q.needs_quoting(), "character that needs no quoting");
}

/// The empty string must be quoted (an unquoted empty word is no word at all).
#[kani::proof]
#[kani::unwind(6)]
fn c07_empty_string() {
    let q = yash_quote::quoted("");
    assert!(q.needs_quoting(), "C07 the empty string needs quoting");
    kani::cover!(true, "reached");
}

// NOTE (measured): a third harness that printed the quoted form through `Display` into a
// fixed-size sink and read it back with a reference reader of '...' and "..." (one character
// from a 12-symbol alphabet) ran CBMC out of memory after 20 min: `write!(f, "'{}'", raw)` goes
// through core::fmt's argument machinery. The printed FORM is therefore outside the claim; what
// is decided is the DECISION to quote, for every Unicode character.
