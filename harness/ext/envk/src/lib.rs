//! External Kani harness crate (public API only): kernels of C10 (errexit applicability).
#![cfg(kani)]

use std::ops::ControlFlow;
use yash_env::Env;
use yash_env::job::Pid;
use yash_env::option::{ErrExit, Off, On};
use yash_env::semantics::{Divert, ExitStatus, Field};
use yash_env::stack::{Builtin, Frame, Stack};
use yash_env::system::{Errno, GetPid};
use yash_env::trap::Condition;

/// frame kinds: 0 Loop, 1 Subshell, 2 Condition, 3 Builtin, 4 DotScript, 5 Trap, 6 InitFile
fn frame(kind: u8, f: &Field) -> Frame {
    match kind {
        0 => Frame::Loop,
        1 => Frame::Subshell,
        2 => Frame::Condition,
        3 => Frame::Builtin(Builtin { name: f.clone(), is_special: kani::any() }),
        4 => Frame::DotScript,
        5 => Frame::Trap(Condition::Exit),
        _ => Frame::InitFile,
    }
}

fn any_kinds<const N: usize>() -> [u8; N] {
    let k: [u8; N] = kani::any();
    let mut i = 0;
    while i < N {
        kani::assume(k[i] < 7);
        i += 1;
    }
    k
}

// ---------------------------------------------------------------------------
// C10: errexit applicability
// ---------------------------------------------------------------------------
struct PidSys;
impl GetPid for PidSys {
    fn getpid(&self) -> Pid { Pid(2) }
    fn getppid(&self) -> Pid { Pid(1) }
    fn getpgrp(&self) -> Pid { Pid(2) }
    fn getsid(&self, _pid: Pid) -> Result<Pid, Errno> { Ok(Pid(2)) }
}

fn fixed_state() -> std::hash::RandomState {
    // HashMap::default() would reach getrandom(2) (foreign function); no asserted
    // post-condition depends on hash order.
    unsafe { std::mem::transmute([0u64; 2]) }
}

fn check_errexit(kinds: &[u8], f: &Field) {
    let mut env = Env::with_system(PidSys);
    // a real allocation even for the empty stack (a dangling zero-capacity Vec makes CBMC reason
    // about a symbolic pointer: out of memory)
    let mut v: Vec<Frame> = Vec::with_capacity(kinds.len() + 1);
    let mut vi = 0;
    while vi < kinds.len() {
        v.push(frame(kinds[vi], f));
        vi += 1;
    }
    env.stack = Stack::from(v);
    let on: bool = kani::any();
    env.options.set(ErrExit, if on { On } else { Off });
    let status: i32 = kani::any();
    env.exit_status = ExitStatus(status);
    let mut in_condition = false;
    let mut i = 0;
    while i < kinds.len() {
        in_condition |= kinds[i] == 2;
        i += 1;
    }
    // docs/src/termination.md, XCU 2.8.1 / set -e: exempt while ANY enclosing context is a condition
    let applicable = on && !in_condition;
    assert!(env.errexit_is_applicable() == applicable, "C10 errexit applicability");
    let r = env.apply_errexit();
    if applicable && status != 0 {
        assert!(r == ControlFlow::Break(Divert::Exit(None)), "C10 errexit exits with the failing status");
    } else {
        assert!(r == ControlFlow::Continue(()), "C10 no exit outside errexit's scope");
    }
    kani::cover!(applicable && status != 0 && kinds.len() >= 2, "exit from a nested context");
    kani::cover!(on && in_condition && status != 0 && kinds.len() >= 2 && kinds[kinds.len() - 1] != 2,
        "condition frame deeper in the stack exempts");
    std::mem::forget(env);
}

macro_rules! errexit_harness {
    ($name:ident, $n:literal) => {
        #[kani::proof]
        #[kani::unwind(8)]
        #[kani::stub(std::hash::RandomState::new, fixed_state)]
        fn $name() {
            // one stack depth per harness (several depths in one harness ran CBMC out of memory)
            let f = Field::dummy("b");
            let keep = f.clone();
            let k = any_kinds::<$n>();
            check_errexit(&k, &f);
            kani::cover!(true, "each: reached");
            std::mem::forget(keep);
            std::mem::forget(f);
        }
    };
}
errexit_harness!(c10_errexit_1, 1);
errexit_harness!(c10_errexit_2, 2);
errexit_harness!(c10_errexit_3, 3);
errexit_harness!(c10_errexit_4, 4);

/// Depth 0: the empty stack (written out; the generic harness with a zero-length symbolic
/// array ran CBMC out of memory).
#[kani::proof]
#[kani::unwind(8)]
#[kani::stub(std::hash::RandomState::new, fixed_state)]
fn c10_errexit_0() {
    let f = Field::dummy("b");
    let keep = f.clone();
    let none: [u8; 0] = [];
    check_errexit(&none, &f);
    kani::cover!(true, "each: reached");
    std::mem::forget(keep);
    std::mem::forget(f);
}
