//! E2 driver: runs the REAL yash-fnmatch translator (Ast::new + Ast::to_regex, and
//! Pattern::parse_with_config) on patterns read from stdin and prints, per pattern,
//! the emitted regex text and its structure as parsed by regex-syntax with the same
//! builder flags the real code sets (dot_matches_new_line(true), case_insensitive,
//! swap_greed). Also answers native match queries (replay).
//!
//! Input lines:
//!   T <ab><ae> <tok>*            translate; tok = N<hex> (normal) | L<hex> (quoted)
//!   M <ab><ae><lp> <tok>* | <hex>*   native Pattern::is_match on the string
use regex_syntax::hir::{Class, Hir, HirKind, Look};
use std::io::{BufRead, Write};
use yash_fnmatch::ast::{Ast, Atom};
use yash_fnmatch::{Config, Pattern, PatternChar};

fn toks(s: &str) -> Vec<PatternChar> {
    s.split_whitespace()
        .map(|t| {
            let c = char::from_u32(u32::from_str_radix(&t[1..], 16).unwrap()).unwrap();
            if t.starts_with('N') { PatternChar::Normal(c) } else { PatternChar::Literal(c) }
        })
        .collect()
}

fn cps(s: &str) -> String {
    let v: Vec<String> = s.chars().map(|c| (c as u32).to_string()).collect();
    format!("[{}]", v.join(","))
}

fn hir_json(h: &Hir, o: &mut String) {
    match h.kind() {
        HirKind::Empty => o.push_str("{\"k\":\"empty\"}"),
        HirKind::Literal(l) => {
            let s = String::from_utf8_lossy(&l.0);
            o.push_str(&format!("{{\"k\":\"lit\",\"s\":{}}}", cps(&s)));
        }
        HirKind::Class(Class::Unicode(c)) => {
            let v: Vec<String> = c.ranges().iter().map(|r| format!("[{},{}]", r.start() as u32, r.end() as u32)).collect();
            o.push_str(&format!("{{\"k\":\"class\",\"r\":[{}]}}", v.join(",")));
        }
        HirKind::Class(Class::Bytes(c)) => {
            let v: Vec<String> = c.ranges().iter().map(|r| format!("[{},{}]", r.start(), r.end())).collect();
            o.push_str(&format!("{{\"k\":\"class\",\"bytes\":true,\"r\":[{}]}}", v.join(",")));
        }
        HirKind::Look(l) => {
            let n = match l {
                Look::Start => "Start",
                Look::End => "End",
                _ => "Other",
            };
            o.push_str(&format!("{{\"k\":\"look\",\"v\":\"{}\"}}", n));
        }
        HirKind::Repetition(r) => {
            o.push_str(&format!("{{\"k\":\"rep\",\"min\":{},\"max\":{},\"sub\":", r.min, r.max.map(|m| m as i64).unwrap_or(-1)));
            hir_json(&r.sub, o);
            o.push('}');
        }
        HirKind::Capture(c) => {
            o.push_str("{\"k\":\"cap\",\"sub\":");
            hir_json(&c.sub, o);
            o.push('}');
        }
        HirKind::Concat(v) | HirKind::Alternation(v) => {
            let k = if matches!(h.kind(), HirKind::Concat(_)) { "cat" } else { "alt" };
            o.push_str(&format!("{{\"k\":\"{}\",\"subs\":[", k));
            for (i, s) in v.iter().enumerate() {
                if i > 0 { o.push(','); }
                hir_json(s, o);
            }
            o.push_str("]}");
        }
    }
}

fn err_kind(e: &yash_fnmatch::Error) -> &'static str {
    use yash_fnmatch::Error::*;
    match e {
        EmptyBracket => "EmptyBracket",
        EmptyCollatingSymbol => "EmptyCollatingSymbol",
        UndefinedCharClass(_) => "UndefinedCharClass",
        CharClassInRange(_) => "CharClassInRange",
        RegexError(_) => "RegexError",
        #[allow(unreachable_patterns)]
        _ => "Other",
    }
}

fn main() {
    let stdin = std::io::stdin();
    let out = std::io::stdout();
    let mut out = std::io::BufWriter::new(out.lock());
    for line in stdin.lock().lines() {
        let line = line.unwrap();
        if line.len() < 2 { continue; }
        let (cmd, rest) = line.split_at(2);
        let rest = rest.trim_start();
        let (cfgs, body) = rest.split_once(' ').unwrap_or((rest, ""));
        let b: Vec<bool> = cfgs.chars().map(|c| c == '1').collect();
        let mut config = Config::default();
        config.anchor_begin = b[0];
        config.anchor_end = b[1];
        if b.len() > 2 { config.literal_period = b[2]; }
        if cmd.starts_with('T') {
            let pat = toks(body);
            let ast = Ast::new(pat.clone());
            let mut o = String::from("{");
            match ast.to_regex(&config) {
                Ok(re) => {
                    o.push_str(&format!("\"regex_cps\":{}", cps(&re)));
                    let parsed = regex_syntax::ParserBuilder::new()
                        .case_insensitive(config.case_insensitive)
                        .dot_matches_new_line(true)
                        .swap_greed(config.shortest_match)
                        .build()
                        .parse(&re);
                    match parsed {
                        Ok(h) => {
                            o.push_str(",\"hir\":");
                            hir_json(&h, &mut o);
                        }
                        Err(_) => o.push_str(",\"hir\":null"),
                    }
                }
                Err(e) => o.push_str(&format!("\"regex\":null,\"terr\":\"{}\"", err_kind(&e))),
            }
            o.push_str(&format!(",\"ast_first_dot\":{}", ast.atoms.first() == Some(&Atom::Char('.'))));
            match ast.to_literal() {
                Some(l) => o.push_str(&format!(",\"ast_literal\":{}", cps(&l))),
                None => o.push_str(",\"ast_literal\":null"),
            }
            match Pattern::parse_with_config(pat, config) {
                Ok(p) => match p.as_literal() {
                    Some(l) => o.push_str(&format!(",\"parse\":\"ok\",\"literal\":{}", cps(l))),
                    None => o.push_str(",\"parse\":\"ok\",\"literal\":null"),
                },
                Err(e) => o.push_str(&format!(",\"parse\":\"{}\"", err_kind(&e))),
            }
            o.push('}');
            writeln!(out, "{}", o).unwrap();
        } else if cmd.starts_with('M') {
            let (p, s) = body.split_once('|').unwrap();
            let text: String = s.split_whitespace().map(|h| char::from_u32(u32::from_str_radix(h, 16).unwrap()).unwrap()).collect();
            let r = match Pattern::parse_with_config(toks(p), config) {
                Ok(p) => if p.is_match(&text) { "true".to_string() } else { "false".to_string() },
                Err(e) => format!("\"{}\"", err_kind(&e)),
            };
            writeln!(out, "{{\"match\":{}}}", r).unwrap();
        }
    }
    out.flush().unwrap();
}
