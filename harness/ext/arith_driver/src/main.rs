//! Native replay/validation driver for E3: evaluates "<lhs> <op> <rhs>" through the public
//! yash_arith::eval (the real tokenizer, parser and evaluator) for lines "<OpName> <lhs> <rhs>".
//! Operands are passed through variables so that negative constants need no parsing tricks.
use std::collections::HashMap;
use std::io::BufRead;
use yash_arith::{ErrorCause, EvalError};

fn sym(op: &str) -> &'static str {
    match op {
        "Assign" => "=", "LogicalOr" => "||", "LogicalAnd" => "&&", "BitwiseOr" => "|", "BitwiseOrAssign" => "|=",
        "BitwiseXor" => "^", "BitwiseXorAssign" => "^=", "BitwiseAnd" => "&", "BitwiseAndAssign" => "&=",
        "EqualTo" => "==", "NotEqualTo" => "!=", "LessThan" => "<", "GreaterThan" => ">", "LessThanOrEqualTo" => "<=",
        "GreaterThanOrEqualTo" => ">=", "ShiftLeft" => "<<", "ShiftLeftAssign" => "<<=", "ShiftRight" => ">>",
        "ShiftRightAssign" => ">>=", "Add" => "+", "AddAssign" => "+=", "Subtract" => "-", "SubtractAssign" => "-=",
        "Multiply" => "*", "MultiplyAssign" => "*=", "Divide" => "/", "DivideAssign" => "/=", "Remainder" => "%",
        "RemainderAssign" => "%=", _ => panic!("unknown operator {op}"),
    }
}

fn main() {
    for line in std::io::stdin().lock().lines() {
        let line = line.unwrap();
        let mut it = line.split_whitespace();
        let (Some(op), Some(l), Some(r)) = (it.next(), it.next(), it.next()) else { continue };
        let mut env: HashMap<String, String> = HashMap::new();
        env.insert("a".to_string(), l.to_string());
        env.insert("b".to_string(), r.to_string());
        let expr = format!("a {} b", sym(op));
        match yash_arith::eval(&expr, &mut env) {
            Ok(yash_arith::Value::Integer(v)) => println!("ok {v}"),
            Ok(_) => println!("ok ?"),
            Err(e) => match e.cause {
                ErrorCause::EvalError(EvalError::Overflow) => println!("err Overflow"),
                ErrorCause::EvalError(EvalError::DivisionByZero) => println!("err DivisionByZero"),
                ErrorCause::EvalError(EvalError::LeftShiftingNegative) => println!("err LeftShiftingNegative"),
                ErrorCause::EvalError(EvalError::ReverseShifting) => println!("err ReverseShifting"),
                other => println!("err Other({other:?})"),
            },
        }
    }
}
