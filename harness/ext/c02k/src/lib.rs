//! External Kani harness crate (public API only): kernels of C02 (loop levels, command search order).
#![cfg(kani)]

use std::num::NonZeroUsize;
use std::ops::ControlFlow;
use yash_env::semantics::{Divert, ExitStatus, Field};
use yash_env::stack::{Builtin, Frame, Stack};
use yash_env::trap::Condition;

/// frame kinds: 0 Loop, 1 Subshell, 2 Condition, 3 Builtin, 4 DotScript, 5 Trap, 6 InitFile
fn frame(kind: u8, f: &Field) -> Frame {
    match kind {
        0 => Frame::Loop,
        1 => Frame::Subshell,
        2 => Frame::Condition,
        3 => Frame::Builtin(Builtin { name: f.clone(), is_special: kani::any() }),
        4 => Frame::DotScript,
        5 => Frame::Trap(Condition::Exit),
        _ => Frame::InitFile,
    }
}

fn any_kinds<const N: usize>() -> [u8; N] {
    let k: [u8; N] = kani::any();
    let mut i = 0;
    while i < N {
        kani::assume(k[i] < 7);
        i += 1;
    }
    k
}

/// Reference (XCU 2.15 break/continue: "the n-th enclosing loop"; loops outside the
/// current execution context — subshell, dot script, trap action, init file — do not count).
fn ref_loops(kinds: &[u8]) -> usize {
    let mut n = 0;
    let mut i = kinds.len();
    while i > 0 {
        i -= 1;
        match kinds[i] {
            0 => n += 1,
            2 | 3 => {}
            _ => break,
        }
    }
    n
}

fn check_loops(kinds: &[u8], f: &Field) {
    // a real allocation even for the empty stack (a dangling zero-capacity Vec makes CBMC reason
    // about a symbolic pointer: out of memory)
    let mut v: Vec<Frame> = Vec::with_capacity(kinds.len() + 1);
    let mut vi = 0;
    while vi < kinds.len() {
        v.push(frame(kinds[vi], f));
        vi += 1;
    }
    let stack = Stack::from(v);
    let max: usize = kani::any();
    let exact = ref_loops(kinds);
    let want = if exact < max { exact } else { max };
    let got = stack.loop_count(max);
    assert!(got == want, "C02 loop_count = enclosing loops in the current context, capped");
    if max >= 1 {
        let n = NonZeroUsize::new(max).unwrap();
        let b = yash_builtin::r#break::semantics::run(&stack, n);
        let c = yash_builtin::r#continue::semantics::run(&stack, n);
        if exact == 0 {
            assert!(b.is_err() && c.is_err(), "C02 break/continue outside a loop is an error");
        } else {
            let b = b.unwrap();
            let c = c.unwrap();
            assert!(b.divert() == ControlFlow::Break(Divert::Break { count: want - 1 }), "C02 break level");
            assert!(c.divert() == ControlFlow::Break(Divert::Continue { count: want - 1 }), "C02 continue level");
            assert!(b.exit_status() == ExitStatus::SUCCESS && c.exit_status() == ExitStatus::SUCCESS, "C02 break/continue status");
        }
    }
    kani::cover!(exact >= 2 && max == 1, "more loops than requested");
    kani::cover!(exact == 0 && kinds.len() >= 2, "loop hidden behind a context boundary or absent");
    std::mem::forget(stack);
}

macro_rules! loops_harness {
    ($name:ident, $n:literal) => {
        #[kani::proof]
        #[kani::unwind(8)]
        fn $name() {
            // one stack depth per harness (several depths in one harness ran CBMC out of memory)
            let f = Field::dummy("b");
            let keep = f.clone();
            let k = any_kinds::<$n>();
            check_loops(&k, &f);
            kani::cover!(true, "each: reached");
            std::mem::forget(keep);
            std::mem::forget(f);
        }
    };
}
loops_harness!(c02_loop_levels_1, 1);
loops_harness!(c02_loop_levels_2, 2);
loops_harness!(c02_loop_levels_3, 3);
loops_harness!(c02_loop_levels_4, 4);
loops_harness!(c02_loop_levels_5, 5);

/// Depth 0: the empty stack (written out; the generic harness with a zero-length symbolic
/// array ran CBMC out of memory).
#[kani::proof]
#[kani::unwind(8)]
fn c02_loop_levels_0() {
    let f = Field::dummy("b");
    let keep = f.clone();
    let none: [u8; 0] = [];
    check_loops(&none, &f);
    kani::cover!(true, "each: reached");
    std::mem::forget(keep);
    std::mem::forget(f);
}
