//! External Kani harness crate (public API only): kernels of C02 (loop levels, command search order).
#![cfg(kani)]

use std::num::NonZeroUsize;
use std::ops::ControlFlow;
use yash_env::semantics::{Divert, ExitStatus, Field};
use yash_env::stack::{Builtin, Frame, Stack};
use yash_env::trap::Condition;

/// frame kinds: 0 Loop, 1 Subshell, 2 Condition, 3 Builtin, 4 DotScript, 5 Trap, 6 InitFile
fn frame(kind: u8, f: &Field) -> Frame {
    match kind {
        0 => Frame::Loop,
        1 => Frame::Subshell,
        2 => Frame::Condition,
        3 => Frame::Builtin(Builtin { name: f.clone(), is_special: kani::any() }),
        4 => Frame::DotScript,
        5 => Frame::Trap(Condition::Exit),
        _ => Frame::InitFile,
    }
}

fn any_kinds<const N: usize>() -> [u8; N] {
    let k: [u8; N] = kani::any();
    let mut i = 0;
    while i < N {
        kani::assume(k[i] < 7);
        i += 1;
    }
    k
}

/// Reference (XCU 2.15 break/continue: "the n-th enclosing loop"; loops outside the
/// current execution context — subshell, dot script, trap action, init file — do not count).
fn ref_loops(kinds: &[u8]) -> usize {
    let mut n = 0;
    let mut i = kinds.len();
    while i > 0 {
        i -= 1;
        match kinds[i] {
            0 => n += 1,
            2 | 3 => {}
            _ => break,
        }
    }
    n
}

fn check_loops(kinds: &[u8], f: &Field) {
    // a real allocation even for the empty stack (a dangling zero-capacity Vec makes CBMC reason
    // about a symbolic pointer: out of memory)
    let mut v: Vec<Frame> = Vec::with_capacity(kinds.len() + 1);
    let mut vi = 0;
    while vi < kinds.len() {
        v.push(frame(kinds[vi], f));
        vi += 1;
    }
    let stack = Stack::from(v);
    let max: usize = kani::any();
    let exact = ref_loops(kinds);
    let want = if exact < max { exact } else { max };
    let got = stack.loop_count(max);
    assert!(got == want, "C02 loop_count = enclosing loops in the current context, capped");
    if max >= 1 {
        let n = NonZeroUsize::new(max).unwrap();
        let b = yash_builtin::r#break::semantics::run(&stack, n);
        let c = yash_builtin::r#continue::semantics::run(&stack, n);
        if exact == 0 {
            assert!(b.is_err() && c.is_err(), "C02 break/continue outside a loop is an error");
        } else {
            let b = b.unwrap();
            let c = c.unwrap();
            assert!(b.divert() == ControlFlow::Break(Divert::Break { count: want - 1 }), "C02 break level");
            assert!(c.divert() == ControlFlow::Break(Divert::Continue { count: want - 1 }), "C02 continue level");
            assert!(b.exit_status() == ExitStatus::SUCCESS && c.exit_status() == ExitStatus::SUCCESS, "C02 break/continue status");
        }
    }
    kani::cover!(exact >= 2 && max == 1, "more loops than requested");
    kani::cover!(exact == 0 && kinds.len() >= 2, "loop hidden behind a context boundary or absent");
    std::mem::forget(stack);
}

macro_rules! loops_harness {
    ($name:ident, $n:literal) => {
        #[kani::proof]
        #[kani::unwind(8)]
        fn $name() {
            // one stack depth per harness (several depths in one harness ran CBMC out of memory)
            let f = Field::dummy("b");
            let keep = f.clone();
            let k = any_kinds::<$n>();
            check_loops(&k, &f);
            kani::cover!(true, "each: reached");
            std::mem::forget(keep);
            std::mem::forget(f);
        }
    };
}
loops_harness!(c02_loop_levels_1, 1);
loops_harness!(c02_loop_levels_2, 2);
loops_harness!(c02_loop_levels_3, 3);
loops_harness!(c02_loop_levels_4, 4);
loops_harness!(c02_loop_levels_5, 5);

/// Depth 0: the empty stack (written out; the generic harness with a zero-length symbolic
/// array ran CBMC out of memory).
#[kani::proof]
#[kani::unwind(8)]
fn c02_loop_levels_0() {
    let f = Field::dummy("b");
    let keep = f.clone();
    let none: [u8; 0] = [];
    check_loops(&none, &f);
    kani::cover!(true, "each: reached");
    std::mem::forget(keep);
    std::mem::forget(f);
}

// ---------------------------------------------------------------------------
// Command search order (XCU 2.9.1.4): special built-in, then function, then any other
// built-in, then PATH; a name containing a slash is always external.
// The environment answers are symbolic (is there a built-in of this name, of which type and
// availability; is there a function); names are the concrete strings "x" and "a/x".
// ---------------------------------------------------------------------------
use std::pin::Pin;
use std::rc::Rc;
use yash_env::builtin::{Builtin as BuiltinDef, Type};
use yash_env::function::{Function, FunctionBody};
use yash_env::semantics::command::search::{Availability, ClassifyEnv, Target, classify};
use yash_env::source::Location;

#[derive(Debug)]
struct Body;
impl std::fmt::Display for Body {
    fn fmt(&self, _f: &mut std::fmt::Formatter<'_>) -> std::fmt::Result {
        Ok(())
    }
}
impl FunctionBody<()> for Body {
    async fn execute(&self, _env: &mut yash_env::Env<()>) -> yash_env::semantics::Result {
        std::ops::ControlFlow::Continue(())
    }
}

fn dummy_main(
    _env: &mut yash_env::Env<()>,
    _args: Vec<Field>,
) -> Pin<Box<dyn Future<Output = yash_env::builtin::Result> + '_>> {
    Box::pin(std::future::ready(yash_env::builtin::Result::default()))
}

struct SearchEnv {
    builtin: Option<(Type, Availability)>,
    function: Option<Rc<Function<()>>>,
    asked_builtin: std::cell::Cell<u8>,
}

impl ClassifyEnv<()> for SearchEnv {
    fn builtin(&self, _name: &str) -> Option<(BuiltinDef<()>, Availability)> {
        self.asked_builtin.set(self.asked_builtin.get() + 1);
        self.builtin.map(|(t, a)| (BuiltinDef::new(t, dummy_main), a))
    }
    fn function(&self, _name: &str) -> Option<&Rc<Function<()>>> {
        self.function.as_ref()
    }
}

fn any_type() -> Type {
    let k: u8 = kani::any();
    kani::assume(k < 5);
    match k {
        0 => Type::Special,
        1 => Type::Mandatory,
        2 => Type::Elective,
        3 => Type::Extension,
        _ => Type::Substitutive,
    }
}

fn check_classify(with_function: bool) {
    let loc = Location::dummy("");
    let keep = loc.clone();
    let func: Rc<Function<()>> = Rc::new(Function::new("x", Rc::new(Body) as Rc<dyn yash_env::function::FunctionBodyObject<()>>, loc));
    let keep_f = func.clone();
    let has_builtin: bool = kani::any();
    let ty = any_type();
    let avail = if kani::any() { Availability::Available } else { Availability::NotPortable };
    let env = SearchEnv {
        builtin: if has_builtin { Some((ty, avail)) } else { None },
        function: if with_function { Some(func) } else { None },
        asked_builtin: std::cell::Cell::new(0),
    };
    let slash: bool = kani::any();
    let target = if slash { classify(&env, "a/x") } else { classify(&env, "x") };
    if slash {
        assert!(matches!(target, Target::External { .. }), "C02 a name with a slash is an external utility");
        assert!(env.asked_builtin.get() == 0, "C02 ... without any lookup");
    } else if has_builtin && ty == Type::Special {
        assert!(matches!(&target, Target::Builtin { builtin, availability, .. } if builtin.r#type == Type::Special && *availability == avail),
            "C02 a special built-in wins over a function");
    } else if with_function {
        assert!(matches!(&target, Target::Function(f) if Rc::ptr_eq(f, &keep_f)), "C02 a function wins over every non-special built-in");
    } else if has_builtin {
        assert!(matches!(&target, Target::Builtin { builtin, availability, .. } if builtin.r#type == ty && *availability == avail),
            "C02 other built-ins come before the PATH search");
    } else {
        assert!(matches!(target, Target::External { .. }), "C02 otherwise the command is searched for in PATH");
    }
    kani::cover!(!slash && has_builtin && ty == Type::Special && with_function, "special built-in and function of one name");
    kani::cover!(!slash && has_builtin && ty != Type::Special && with_function, "regular built-in and function of one name");
    kani::cover!(true, "each: reached");
    std::mem::forget(target);
    std::mem::forget(env);
    std::mem::forget(keep_f);
    std::mem::forget(keep);
}

/// `CString::default()` is implemented with a C string literal, which Kani 0.68 does not
/// support; it is replaced by an equivalent construction.
fn empty_cstring() -> std::ffi::CString {
    std::ffi::CString::new(Vec::new()).unwrap()
}

#[kani::proof]
#[kani::unwind(6)]
#[kani::stub(<std::ffi::CString as std::default::Default>::default, empty_cstring)]
fn c02_search_order_with_function() {
    check_classify(true);
}

#[kani::proof]
#[kani::unwind(6)]
#[kani::stub(<std::ffi::CString as std::default::Default>::default, empty_cstring)]
fn c02_search_order_without_function() {
    check_classify(false);
}

// NOTE (measured): harnesses for search() - the PATH walk over the concrete PATH "/b:/c" with a
// symbolic answer for which candidate is executable, and the statuses for substitutive and
// non-portable built-ins - ran CBMC out of memory (10 GB after 10 min, 16 GB cap): splitting
// PATH, joining paths and building CStrings is string processing on heap data. Only classify(),
// i.e. the search ORDER, is decided.
