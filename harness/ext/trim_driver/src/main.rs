#![recursion_limit = "512"]
//! Native driver for the prefix / suffix removal validation of C04: runs the REAL parameter
//! expansion `${x#pat}` / `${x##pat}` / `${x%pat}` / `${x%%pat}` (yash-syntax parser for the word,
//! yash-semantics initial expansion incl. trim.rs, yash-fnmatch find / rfind) on the project's
//! virtual system and prints the resulting field.
//!
//! Input lines:  <op> <pattern hex codepoints, space separated, L prefix = backslash-quoted> | <value hex codepoints>
//! Output lines: JSON {"ok": true, "value": [codepoints]} or {"ok": false, "error": "..."}
use futures_util::FutureExt as _;
use std::io::{BufRead, Write};
use yash_env::Env;
use yash_env::variable::Scope;
use yash_syntax::syntax::Word;

fn main() {
    let stdin = std::io::stdin();
    let stdout = std::io::stdout();
    let mut out = stdout.lock();
    for line in stdin.lock().lines() {
        let line = line.unwrap();
        let line = line.trim();
        if line.is_empty() {
            continue;
        }
        let (op, rest) = line.split_once(' ').unwrap();
        let (pat, val) = rest.split_once('|').unwrap();
        let mut text = String::from("${x");
        text.push_str(op);
        for t in pat.split_whitespace() {
            let (quoted, hex) = if let Some(h) = t.strip_prefix('L') { (true, h) } else { (false, t.strip_prefix('N').unwrap_or(t)) };
            let c = char::from_u32(u32::from_str_radix(hex, 16).unwrap()).unwrap();
            if quoted {
                text.push('\\');
            }
            text.push(c);
        }
        text.push('}');
        let value: String = val.split_whitespace().map(|h| char::from_u32(u32::from_str_radix(h, 16).unwrap()).unwrap()).collect();
        let word: Word = match text.parse() {
            Ok(w) => w,
            Err(_) => {
                writeln!(out, "{{\"ok\":false,\"error\":\"word does not parse\"}}").unwrap();
                continue;
            }
        };
        let mut env = Env::new_virtual();
        env.variables.get_or_new("x", Scope::Global).assign(value, None).unwrap();
        let r = yash_semantics::expansion::expand_word(&mut env, &word).now_or_never();
        match r {
            Some(Ok((field, _))) => {
                let cps: Vec<String> = field.value.chars().map(|c| (c as u32).to_string()).collect();
                writeln!(out, "{{\"ok\":true,\"value\":[{}]}}", cps.join(",")).unwrap();
            }
            Some(Err(_)) => writeln!(out, "{{\"ok\":false,\"error\":\"expansion error\"}}").unwrap(),
            None => writeln!(out, "{{\"ok\":false,\"error\":\"expansion did not complete\"}}").unwrap(),
        }
    }
}
