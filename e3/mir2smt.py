#!/usr/bin/env python3-vt
"""E3 — nightly MIR -> SMT (bit-vectors) for loop-free integer kernels of yash-arith.

Symbolically executes the MIR text (rustc -Zunpretty=mir, regenerated from the snapshot on
every run) of a named function by path enumeration: integers are z3 bit-vectors, bools are
z3 Bools, ADT values are kept structurally, calls to other functions of the dump are
inlined, and a fixed list of std functions is modelled by their documented contract.
Anything else makes the run inconclusive (UnsupportedMir), never green.

Used by vlib/props/c03.py for yash_arith::eval::binary_result (full 64-bit, incl. / and %).
"""
import re
import sys

import z3


class UnsupportedMir(Exception):
    pass


# ---------------------------------------------------------------------------
# MIR text -> functions -> blocks
# ---------------------------------------------------------------------------

class Fn:
    def __init__(self, name, params, ret):
        self.name = name
        self.params = params  # [(local, type)]
        self.ret = ret
        self.locals = {}      # local -> type
        self.blocks = {}      # bbN -> [statements], terminator is the last one
        self.cleanup = set()


def split_top(s, sep=","):
    out, depth, cur = [], 0, ""
    for ch in s:
        if ch in "([{<":
            depth += 1
        elif ch in ")]}>":
            depth -= 1
        if ch == sep and depth == 0:
            out.append(cur.strip())
            cur = ""
        else:
            cur += ch
    if cur.strip():
        out.append(cur.strip())
    return out


def parse_mir(text):
    fns = {}
    lines = text.split("\n")
    i = 0
    hdr = re.compile(r"^fn (.+?)\((.*)\) -> (.+) \{$")
    hdr_unit = re.compile(r"^fn (.+?)\((.*)\) \{$")
    while i < len(lines):
        m = hdr.match(lines[i]) or hdr_unit.match(lines[i])
        if not m:
            i += 1
            continue
        name = m.group(1)
        params = []
        for p in split_top(m.group(2)):
            pm = re.match(r"(_\d+): (.+)$", p)
            if pm:
                params.append((pm.group(1), pm.group(2)))
        f = Fn(name, params, m.group(3) if m.lastindex >= 3 else "()")
        for l, t in params:
            f.locals[l] = t
        i += 1
        cur = None
        while i < len(lines) and lines[i] != "}":
            ln = lines[i].strip()
            lm = re.match(r"let (?:mut )?(_\d+): (.+);$", ln)
            if lm:
                f.locals[lm.group(1)] = lm.group(2)
            bm = re.match(r"(bb\d+)( \(cleanup\))?: \{$", ln)
            if bm:
                cur = bm.group(1)
                f.blocks[cur] = []
                if bm.group(2):
                    f.cleanup.add(cur)
            elif cur is not None:
                if ln == "}":
                    cur = None
                elif ln and not ln.startswith("//"):
                    f.blocks[cur].append(ln.rstrip(";"))
            i += 1
        fns[name] = f
    return fns


# ---------------------------------------------------------------------------
# values
# ---------------------------------------------------------------------------

INT_TYPES = {"i8": (8, True), "i16": (16, True), "i32": (32, True), "i64": (64, True), "i128": (128, True),
             "isize": (64, True), "u8": (8, False), "u16": (16, False), "u32": (32, False), "u64": (64, False),
             "u128": (128, False), "usize": (64, False)}


class Int:
    def __init__(self, bv, ty):
        self.bv = bv
        self.ty = ty

    @property
    def bits(self):
        return INT_TYPES[self.ty][0]

    @property
    def signed(self):
        return INT_TYPES[self.ty][1]


class Adt:
    """('Some', [x]) / ('None', []) / struct with named fields / closure."""
    def __init__(self, variant, fields=None, named=None):
        self.variant = variant
        self.fields = fields or []
        self.named = named or {}

    def __repr__(self):
        return "%s(%s%s)" % (self.variant, ", ".join(map(repr, self.fields)),
                             ", ".join("%s=%r" % kv for kv in self.named.items()))


class Ref:
    def __init__(self, frame, place):
        self.frame = frame
        self.place = place


class Opaque:
    def __init__(self, what):
        self.what = what

    def __repr__(self):
        return "<%s>" % self.what


class SymEnum:
    """An input enum whose variant is symbolic (its discriminant is a bit-vector)."""
    def __init__(self, bv, nvariants):
        self.bv = bv
        self.n = nvariants


UNIT = Adt("()")


class Path:
    def __init__(self, cond, depth=0):
        self.cond = cond   # list of z3 Bool


class Exec:
    def __init__(self, fns, max_paths=4000):
        self.fns = fns
        self.max_paths = max_paths
        self.paths_done = 0
        self.calls_modelled = set()
        self.fns_translated = set()

    # -- operands / places ---------------------------------------------------
    def const(self, text):
        text = text.strip()
        if text == "true":
            return z3.BoolVal(True)
        if text == "false":
            return z3.BoolVal(False)
        if text == "()":
            return UNIT
        m = re.match(r"(-?\d+)_(\w+)$", text)
        if m and m.group(2) in INT_TYPES:
            bits = INT_TYPES[m.group(2)][0]
            return Int(z3.BitVecVal(int(m.group(1)), bits), m.group(2))
        raise UnsupportedMir("constant " + text)

    def read_place(self, frame, place):
        place = place.strip()
        m = re.match(r"^_(\w+)$", place)
        if m:
            if place not in frame:
                raise UnsupportedMir("read of unset local %s" % place)
            return frame[place]
        m = re.match(r"^\(\*(.+)\)$", place)
        if m:
            r = self.read_place(frame, m.group(1))
            if not isinstance(r, Ref):
                raise UnsupportedMir("deref of non-reference " + place)
            return self.read_place(r.frame, r.place)
        # ((_1 as Variant).0: ty)  or (_1.0: ty)
        m = re.match(r"^\(\((.+) as (\w+)\)\.(\d+): .+\)$", place)
        if m:
            base = self.read_place(frame, m.group(1))
            if not isinstance(base, Adt) or base.variant != m.group(2):
                raise UnsupportedMir("downcast of %r to %s" % (base, m.group(2)))
            return base.fields[int(m.group(3))]
        m = re.match(r"^\((.+)\.(\d+): .+\)$", place)
        if m:
            base = self.read_place(frame, m.group(1))
            if isinstance(base, Adt):
                return base.fields[int(m.group(2))]
            raise UnsupportedMir("field of non-ADT " + place)
        raise UnsupportedMir("place " + place)

    def operand(self, frame, text):
        text = text.strip()
        for kw in ("no_retag ", ):
            if text.startswith(kw):
                text = text[len(kw):]
        if text.startswith("copy ") or text.startswith("move "):
            return self.read_place(frame, text[5:])
        if text.startswith("const "):
            return self.const(text[6:])
        raise UnsupportedMir("operand " + text)

    # -- rvalues -------------------------------------------------------------
    BIN = {"Lt", "Le", "Gt", "Ge", "Eq", "Ne", "BitAnd", "BitOr", "BitXor", "Shr", "Shl", "Add", "Sub", "Mul"}

    def rvalue(self, frame, text, dest_ty):
        text = text.strip()
        if text.startswith("no_retag "):
            text = text[9:]
        m = re.match(r"^discriminant\((.+)\)$", text)
        if m:
            v = self.read_place(frame, m.group(1))
            return ("discr", v)
        m = re.match(r"^&(?:mut )?(.+)$", text)
        if m:
            return Ref(frame, m.group(1))
        m = re.match(r"^(\w+)\((.+)\)$", text)
        if m and m.group(1) in self.BIN:
            a, b = [self.operand(frame, x) for x in split_top(m.group(2))]
            return self.binop(m.group(1), a, b)
        m = re.match(r"^Not\((.+)\)$", text)
        if m:
            a = self.operand(frame, m.group(1))
            if isinstance(a, Int):
                return Int(~a.bv, a.ty)
            return z3.Not(a)
        m = re.match(r"^(.+) as (\w+) \(IntToInt\)$", text)
        if m:
            v = self.operand(frame, m.group(1))
            ty = m.group(2)
            bits, _ = INT_TYPES[ty]
            if isinstance(v, Int):
                if bits > v.bits:
                    bv = z3.SignExt(bits - v.bits, v.bv) if v.signed else z3.ZeroExt(bits - v.bits, v.bv)
                elif bits < v.bits:
                    bv = z3.Extract(bits - 1, 0, v.bv)
                else:
                    bv = v.bv
                return Int(bv, ty)
            # bool -> int
            return Int(z3.If(v, z3.BitVecVal(1, bits), z3.BitVecVal(0, bits)), ty)
        if text.startswith("copy ") or text.startswith("move ") or text.startswith("const "):
            return self.operand(frame, text)
        # closure aggregate
        m = re.match(r"^\{closure@([^}]*)\} \{(.*)\}$", text)
        if m:
            fields = []
            for fld in split_top(m.group(2)):
                fm = re.match(r"^\w+: (.+)$", fld)
                fields.append(self.operand(frame, fm.group(1)))
            return Adt("closure@" + m.group(1).strip(), fields)
        # struct aggregate  Path::<..> { a: x, b: y }
        m = re.match(r"^([\w:<>, ]+?) \{(.*)\}$", text)
        if m:
            named = {}
            for fld in split_top(m.group(2)):
                fm = re.match(r"^(\w+): (.+)$", fld)
                named[fm.group(1)] = self.operand(frame, fm.group(2))
            return Adt(self.short(m.group(1)), named=named)
        # enum variant with payload  Path::<..>::Variant(args)
        m = re.match(r"^([\w:<>, ()&']+)::(\w+)\((.*)\)$", text)
        if m:
            return Adt(m.group(2), [self.operand(frame, x) for x in split_top(m.group(3))])
        # unit variant
        m = re.match(r"^([\w:<>, ()&']+)::(\w+)$", text)
        if m:
            return Adt(m.group(2))
        raise UnsupportedMir("rvalue " + text)

    @staticmethod
    def short(path):
        return re.sub(r"::<.*", "", path).split("::")[-1]

    def binop(self, op, a, b):
        if op in ("Eq", "Ne") and not isinstance(a, Int):
            r = a == b
            return r if op == "Eq" else z3.Not(r)
        if not (isinstance(a, Int) and isinstance(b, Int)):
            raise UnsupportedMir("binop %s on non-integers" % op)
        x, y, s = a.bv, b.bv, a.signed
        if op == "Lt":
            return x < y if s else z3.ULT(x, y)
        if op == "Le":
            return x <= y if s else z3.ULE(x, y)
        if op == "Gt":
            return x > y if s else z3.UGT(x, y)
        if op == "Ge":
            return x >= y if s else z3.UGE(x, y)
        if op == "Eq":
            return x == y
        if op == "Ne":
            return x != y
        if op == "BitAnd":
            return Int(x & y, a.ty)
        if op == "BitOr":
            return Int(x | y, a.ty)
        if op == "BitXor":
            return Int(x ^ y, a.ty)
        if op in ("Shr", "Shl"):
            if b.bits < a.bits:
                y = z3.ZeroExt(a.bits - b.bits, y)
            elif b.bits > a.bits:
                y = z3.Extract(a.bits - 1, 0, y)
            if op == "Shl":
                return Int(x << y, a.ty)
            return Int(x >> y if s else z3.LShR(x, y), a.ty)
        if op == "Add":
            return Int(x + y, a.ty)
        if op == "Sub":
            return Int(x - y, a.ty)
        if op == "Mul":
            return Int(x * y, a.ty)
        raise UnsupportedMir("binop " + op)

    # -- modelled std functions: return list of (extra_conditions, value) -----
    def std_call(self, callee, args):
        def opt(cond_none, some_val):
            return [([cond_none], Adt("None")), ([z3.Not(cond_none)], Adt("Some", [some_val]))]
        m = re.match(r"^core::num::<impl (\w+)>::checked_(\w+)$", callee)
        if m:
            ty, op = m.group(1), m.group(2)
            self.calls_modelled.add(callee)
            bits, signed = INT_TYPES[ty]
            a = args[0].bv
            if op in ("add", "sub", "mul"):
                b = args[1].bv
                if not signed:
                    raise UnsupportedMir(callee)
                lo = {"add": a + b, "sub": a - b, "mul": a * b}[op]
                ext = bits if op == "mul" else 1
                ax, bx = z3.SignExt(ext, a), z3.SignExt(ext, b)
                wide = {"add": ax + bx, "sub": ax - bx, "mul": ax * bx}[op]
                ovf = wide != z3.SignExt(ext, lo)
                return opt(ovf, Int(lo, ty))
            if op in ("div", "rem"):
                b = args[1].bv
                minv = z3.BitVecVal(1 << (bits - 1), bits)
                none = z3.Or(b == 0, z3.And(a == minv, b == z3.BitVecVal(-1, bits)))
                # Rust: truncating division, remainder has the sign of the dividend = bvsdiv / bvsrem
                val = a / b if op == "div" else z3.SRem(a, b)
                return opt(none, Int(val, ty))
            if op == "neg":
                minv = z3.BitVecVal(1 << (bits - 1), bits)
                return opt(a == minv, Int(-a, ty))
            if op in ("shl", "shr"):
                cnt = args[1]
                c = z3.ZeroExt(bits - cnt.bits, cnt.bv) if cnt.bits < bits else cnt.bv
                none = z3.UGE(c, z3.BitVecVal(bits, bits))
                val = (a << c) if op == "shl" else (a >> c if signed else z3.LShR(a, c))
                return opt(none, Int(val, ty))
            raise UnsupportedMir(callee)
        if callee == "<i64 as TryInto<u32>>::try_into":
            self.calls_modelled.add(callee)
            a = args[0].bv
            bad = z3.Or(a < 0, a > z3.BitVecVal(0xFFFFFFFF, 64))
            return [([bad], Adt("Err", [Opaque("TryFromIntError")])),
                    ([z3.Not(bad)], Adt("Ok", [Int(z3.Extract(31, 0, a), "u32")]))]
        if re.match(r"^<std::ops::Range<usize> as Clone>::clone$", callee):
            self.calls_modelled.add(callee)
            return [([], Opaque("location"))]
        m = re.match(r"^<Result<.*> as Try>::branch$", callee)
        if m:
            self.calls_modelled.add("<Result<T, E> as Try>::branch")
            r = args[0]
            if r.variant == "Ok":
                return [([], Adt("Continue", [r.fields[0]]))]
            return [([], Adt("Break", [Adt("Err", [r.fields[0]])]))]
        if re.match(r"^<Result<.*> as FromResidual<Result<Infallible, .*>>>::from_residual$", callee):
            self.calls_modelled.add("<Result<T, E> as FromResidual>::from_residual")
            return [([], Adt("Err", [args[0].fields[0]]))]
        return None

    def call_closure(self, clo, extra_args, pc):
        """Find the closure body by its source span and run it."""
        span = clo.variant[len("closure@"):]
        for name, f in self.fns.items():
            if "{closure#" in name and f.params and ("{closure@%s}" % span) in f.params[0][1]:
                return self.run_fn(name, [clo] + extra_args, pc)
        raise UnsupportedMir("closure body not found for " + span)

    def higher_order(self, callee, args, pc):
        """Option::filter, Option::ok_or_else, Result::map_err: contract + translated closure."""
        if re.match(r"^Option::<.*>::filter::<", callee):
            self.calls_modelled.add("Option::filter")
            o, clo = args
            if o.variant == "None":
                return [(pc, Adt("None"))]
            out = []
            # the predicate takes a reference to the payload
            holder = {"_v": o.fields[0]}
            for pc2, keep in self.call_closure(clo, [Ref(holder, "_v")], pc):
                out.append((pc2 + [keep], o))
                out.append((pc2 + [z3.Not(keep)], Adt("None")))
            return out
        if re.match(r"^Option::<.*>::ok_or_else::<", callee):
            self.calls_modelled.add("Option::ok_or_else")
            o, clo = args
            if o.variant == "Some":
                return [(pc, Adt("Ok", [o.fields[0]]))]
            return [(pc2, Adt("Err", [e])) for pc2, e in self.call_closure(clo, [], pc)]
        if re.match(r"^Result::<.*>::map_err::<", callee):
            self.calls_modelled.add("Result::map_err")
            r, clo = args
            if r.variant == "Ok":
                return [(pc, r)]
            return [(pc2, Adt("Err", [e])) for pc2, e in self.call_closure(clo, [r.fields[0]], pc)]
        return None

    # -- function execution: returns list of (path_condition, return value) --
    def run_fn(self, name, args, pc):
        if name not in self.fns:
            raise UnsupportedMir("function not in MIR dump: " + name)
        f = self.fns[name]
        self.fns_translated.add(name)
        frame = {}
        for (l, _t), a in zip(f.params, args):
            frame[l] = a
        results = []
        self.run_block(f, "bb0", frame, list(pc), results, 0)
        return results

    def feasible(self, pc):
        s = z3.Solver()
        s.set("timeout", 1000)   # unknown counts as feasible (sound: only prunes proven-dead paths)
        s.add(*pc)
        return s.check() != z3.unsat

    def run_block(self, f, bb, frame, pc, results, depth):
        if depth > 400:
            raise UnsupportedMir("path too long (loop?) in " + f.name)
        if bb in f.cleanup:
            raise UnsupportedMir("cleanup block reached")
        stmts = f.blocks[bb]
        for k, st in enumerate(stmts):
            last = k == len(stmts) - 1
            if st in ("return",):
                if "_0" not in frame:
                    frame["_0"] = UNIT
                results.append((pc, frame["_0"]))
                self.paths_done += 1
                if self.paths_done > self.max_paths:
                    raise UnsupportedMir("too many paths")
                return
            if st == "unreachable":
                # statically unreachable per rustc; if a path gets here its condition must be unsat
                if self.feasible(pc):
                    raise UnsupportedMir("feasible path into `unreachable` in " + f.name)
                return
            m = re.match(r"^goto -> (bb\d+)$", st)
            if m:
                return self.run_block(f, m.group(1), frame, pc, results, depth + 1)
            m = re.match(r"^switchInt\((.+)\) -> \[(.+)\]$", st)
            if m:
                v = self.operand(frame, m.group(1))
                targets = []
                other = None
                for t in split_top(m.group(2)):
                    a, b = [x.strip() for x in t.split(":")]
                    if a == "otherwise":
                        other = b
                    else:
                        targets.append((int(a), b))
                return self.switch(f, v, targets, other, frame, pc, results, depth)
            m = re.match(r"^assert\((!?)(.+?), \"(.*?)\".*\) -> \[success: (bb\d+), .*\]$", st)
            if m:
                c = self.operand(frame, m.group(2))
                if m.group(1):
                    c = z3.Not(c)
                # the failing branch is a panic: record it as a result of its own
                bad = pc + [z3.Not(c)]
                if self.feasible(bad):
                    results.append((bad, Adt("PANIC", [Opaque(m.group(3))])))
                return self.run_block(f, m.group(4), frame, pc + [c], results, depth + 1)
            # call terminator
            m = re.match(r"^(_\d+) = (.+) -> \[return: (bb\d+), unwind.*\]$", st)
            if m and last and m.group(2).endswith(")"):
                dest, callexpr, nxt = m.groups()
                # split CALLEE(args) at the parenthesis that matches the final ')'
                depth = 0
                cut = None
                for idx in range(len(callexpr) - 1, -1, -1):
                    ch = callexpr[idx]
                    if ch == ")":
                        depth += 1
                    elif ch == "(":
                        depth -= 1
                        if depth == 0:
                            cut = idx
                            break
                if cut is None:
                    raise UnsupportedMir("call syntax: " + st)
                callee, argtxt = callexpr[:cut], callexpr[cut + 1:-1]
                args = [self.operand(frame, a) for a in split_top(argtxt)] if argtxt.strip() else []
                outs = self.call(callee, args, pc)
                for pc2, val in outs:
                    if not self.feasible(pc2):
                        continue
                    fr = dict(frame)
                    fr[dest] = val
                    self.run_block(f, nxt, fr, pc2, results, depth + 1)
                return
            m = re.match(r"^(_\d+) = (.+)$", st)
            if m:
                dest = m.group(1)
                val = self.rvalue(frame, m.group(2), f.locals.get(dest))
                frame[dest] = val
                continue
            if st.startswith("StorageLive") or st.startswith("StorageDead") or st.startswith("nop") \
                    or st.startswith("FakeRead") or st.startswith("PlaceMention") or st.startswith("AscribeUserType") \
                    or st.startswith("Retag"):
                continue
            raise UnsupportedMir("statement: " + st)
        raise UnsupportedMir("block without terminator: %s %s" % (f.name, bb))

    def call(self, callee, args, pc):
        callee = callee.strip()
        r = self.std_call(callee, args)
        if r is not None:
            return [(pc + conds, val) for conds, val in r]
        r = self.higher_order(callee, args, pc)
        if r is not None:
            return r
        base = re.sub(r"::<.*>$", "", callee)
        if base in self.fns:
            return self.run_fn(base, args, pc)
        raise UnsupportedMir("call to unmodelled function: " + callee)

    def switch(self, f, v, targets, other, frame, pc, results, depth):
        if isinstance(v, tuple) and v[0] == "discr":
            d = v[1]
            if isinstance(d, Adt):
                idx = self.variant_index(d)
                for val, bb in targets:
                    if val == idx:
                        return self.run_block(f, bb, frame, pc, results, depth + 1)
                return self.run_block(f, other, frame, pc, results, depth + 1)
            if isinstance(d, SymEnum):
                taken = []
                for val, bb in targets:
                    c = d.bv == z3.BitVecVal(val, d.bv.size())
                    taken.append(c)
                    if self.feasible(pc + [c]):
                        self.run_block(f, bb, dict(frame), pc + [c], results, depth + 1)
                if other is not None:
                    c = z3.Not(z3.Or(*taken)) if taken else z3.BoolVal(True)
                    if self.feasible(pc + [c]):
                        self.run_block(f, other, dict(frame), pc + [c], results, depth + 1)
                return
            raise UnsupportedMir("discriminant of %r" % (d,))
        if z3.is_bool(v):
            for val, bb in targets:
                c = v if val != 0 else z3.Not(v)
                if self.feasible(pc + [c]):
                    self.run_block(f, bb, dict(frame), pc + [c], results, depth + 1)
            if other is not None:
                vals = [val for val, _ in targets]
                c = z3.Not(v) if 0 not in vals and vals else (v if 0 in vals else z3.BoolVal(True))
                if len(vals) == 1:
                    c = v if vals[0] == 0 else z3.Not(v)
                if self.feasible(pc + [c]):
                    self.run_block(f, other, dict(frame), pc + [c], results, depth + 1)
            return
        if isinstance(v, Int):
            taken = []
            for val, bb in targets:
                c = v.bv == z3.BitVecVal(val, v.bits)
                taken.append(c)
                if self.feasible(pc + [c]):
                    self.run_block(f, bb, dict(frame), pc + [c], results, depth + 1)
            if other is not None:
                c = z3.Not(z3.Or(*taken)) if taken else z3.BoolVal(True)
                if self.feasible(pc + [c]):
                    self.run_block(f, other, dict(frame), pc + [c], results, depth + 1)
            return
        raise UnsupportedMir("switchInt on %r" % (v,))

    VARIANT_INDEX = {"None": 0, "Some": 1, "Ok": 0, "Err": 1, "Continue": 0, "Break": 1, "Integer": 0}

    def variant_index(self, adt):
        if adt.variant in self.VARIANT_INDEX:
            return self.VARIANT_INDEX[adt.variant]
        raise UnsupportedMir("variant index of " + adt.variant)


def enum_variants(src, enum_name):
    """Variant names of `pub enum <name>` in declaration order (unit variants only)."""
    m = re.search(r"pub enum %s \{(.*?)\n\}" % enum_name, src, re.S)
    if not m:
        raise UnsupportedMir("enum %s not found in source" % enum_name)
    out = []
    for ln in m.group(1).split("\n"):
        ln = ln.strip()
        vm = re.match(r"^(\w+),$", ln)
        if vm:
            out.append(vm.group(1))
    return out
