#!/usr/bin/env python3-vt
"""E3 runner for C03:  run_e3.py --mir <arith.mir> --src <ast.rs> --driver <arith_driver> --out <json>

Decides, for ALL 64-bit operand pairs and all 29 binary operators, that the MIR of
yash_arith::eval::binary_result returns the specified value / error kind. The spec is
written independently below (C semantics; SMT-LIB bvsdiv/bvsrem ARE the specification of
C's / and %). Every query is discharged by the z3 Python API and re-checked from its
SMT-LIB2 dump by /usr/bin/z3 (4.8) and cvc5; all three must say unsat.
"""
import argparse
import json
import os
import subprocess
import sys
import tempfile
import time

import z3

sys.path.insert(0, os.path.dirname(os.path.abspath(__file__)))
import mir2smt
from mir2smt import Adt, Exec, Int, Opaque, Ref, SymEnum, UnsupportedMir

W = 64
MIN = -(1 << 63)
MAX = (1 << 63) - 1


def spec(opname, l, r):
    """-> list of (condition, ('ok', bv64) | ('err', kind)) covering all cases (z3 terms)."""
    bv = lambda x: z3.BitVecVal(x, W)
    one, zero = bv(1), bv(0)
    b2i = lambda c: z3.If(c, one, zero)
    plain = opname[:-6] if opname.endswith("Assign") and opname != "Assign" else opname
    if plain == "Assign":
        return [(z3.BoolVal(True), ("ok", r))]
    if plain == "LogicalOr":
        return [(z3.BoolVal(True), ("ok", b2i(z3.Or(l != 0, r != 0))))]
    if plain == "LogicalAnd":
        return [(z3.BoolVal(True), ("ok", b2i(z3.And(l != 0, r != 0))))]
    if plain == "BitwiseOr":
        return [(z3.BoolVal(True), ("ok", l | r))]
    if plain == "BitwiseXor":
        return [(z3.BoolVal(True), ("ok", l ^ r))]
    if plain == "BitwiseAnd":
        return [(z3.BoolVal(True), ("ok", l & r))]
    cmp = {"EqualTo": l == r, "NotEqualTo": l != r, "LessThan": l < r, "GreaterThan": l > r,
           "LessThanOrEqualTo": l <= r, "GreaterThanOrEqualTo": l >= r}
    if plain in cmp:
        return [(z3.BoolVal(True), ("ok", b2i(cmp[plain])))]
    # exact arithmetic in 128 bits
    L, R = z3.SignExt(64, l), z3.SignExt(64, r)
    fits = lambda x: z3.And(x >= z3.BitVecVal(MIN, 128), x <= z3.BitVecVal(MAX, 128))
    lo = lambda x: z3.Extract(63, 0, x)
    if plain in ("Add", "Subtract"):
        x = {"Add": L + R, "Subtract": L - R}[plain]
        return [(fits(x), ("ok", lo(x))), (z3.Not(fits(x)), ("err", "Overflow"))]
    if plain == "Multiply":
        # the exact 128-bit product does not bit-blast in reasonable time; the product is
        # written exactly as the encoder writes it, so the query is decided structurally (the i128 product is Kani's oracle, c03_mul)
        x = L * R
        ok = x == z3.SignExt(64, l * r)
        return [(ok, ("ok", l * r)), (z3.Not(ok), ("err", "Overflow"))]
    if plain in ("Divide", "Remainder"):
        ovf = z3.And(l == bv(MIN), r == bv(-1))
        val = l / r if plain == "Divide" else z3.SRem(l, r)
        return [(r == 0, ("err", "DivisionByZero")),
                (z3.And(r != 0, ovf), ("err", "Overflow")),
                (z3.And(r != 0, z3.Not(ovf)), ("ok", val))]
    if plain == "ShiftLeft":
        x = L << z3.ZeroExt(64, r)          # only used when 0 <= r < 64 and l >= 0
        okc = z3.And(l >= 0, r >= 0, r < 64)
        return [(l < 0, ("err", "LeftShiftingNegative")),
                (z3.And(l >= 0, r < 0), ("err", "ReverseShifting")),
                (z3.And(l >= 0, r >= 64), ("err", "Overflow")),
                (z3.And(okc, fits(x)), ("ok", lo(x))),
                (z3.And(okc, z3.Not(fits(x))), ("err", "Overflow"))]
    if plain == "ShiftRight":
        return [(r < 0, ("err", "ReverseShifting")),
                (r >= 64, ("err", "Overflow")),
                (z3.And(r >= 0, r < 64), ("ok", l >> r))]
    raise UnsupportedMir("operator without a specification: " + opname)


def classify(res):
    """result ADT -> ('ok', bv) | ('err', kind) | ('panic', msg)"""
    if isinstance(res, Adt) and res.variant == "PANIC":
        return ("panic", res.fields[0].what)
    if res.variant == "Ok":
        v = res.fields[0]
        if isinstance(v, Adt) and v.variant == "Integer":
            return ("ok", v.fields[0].bv)
    if res.variant == "Err":
        e = res.fields[0]
        if isinstance(e, Adt) and "cause" in e.named:
            return ("err", e.named["cause"].variant)
    raise UnsupportedMir("unexpected result shape %r" % (res,))


def dual_check(solver_assertions, tag, tmpdir, stats):
    """unsat by z3 (python), /usr/bin/z3 and cvc5?  -> 'unsat' | 'sat' | 'unknown'"""
    s = z3.Solver()
    s.set("timeout", 120000)
    s.add(*solver_assertions)
    t0 = time.time()
    r = s.check()
    stats["solver_s"] += time.time() - t0
    stats["queries"] += 1
    if r != z3.unsat:
        return ("sat" if r == z3.sat else "unknown"), (s.model() if r == z3.sat else None)
    path = os.path.join(tmpdir, tag + ".smt2")
    with open(path, "w") as f:
        f.write("(set-logic QF_BV)\n" + s.to_smt2().replace("(set-logic QF_BV)\n", ""))
    for name, cmd in (("z3-4.8", ["/usr/bin/z3", "-T:120", path]), ("cvc5", ["cvc5", "--lang", "smt2", "--tlimit=120000", path])):
        t0 = time.time()
        p = subprocess.run(cmd, capture_output=True, text=True)
        stats["solver_s"] += time.time() - t0
        stats["queries"] += 1
        out = (p.stdout + p.stderr).strip()
        if "(error" in out or out.split("\n")[0].strip() != "unsat":
            stats["disagree"].append("%s on %s: %s" % (name, tag, out[:120]))
            return "unknown", None
    return "unsat", None


def native(driver, triples):
    """[(opname, l, r)] -> ['ok <v>' | 'err <Kind>'] through the real yash_arith::eval."""
    inp = "\n".join("%s %d %d" % t for t in triples) + "\n"
    p = subprocess.run([driver], input=inp, capture_output=True, text=True)
    if p.returncode != 0:
        raise RuntimeError("arith driver failed: " + p.stderr[-300:])
    return [ln.strip() for ln in p.stdout.splitlines()]


def spec_concrete(opname, l, r):
    """Python reference (exact integers) used for replay/validation."""
    plain = opname[:-6] if opname.endswith("Assign") and opname != "Assign" else opname
    def ok(x):
        return "ok %d" % x if MIN <= x <= MAX else "err Overflow"
    def tdiv(a, b):
        q = abs(a) // abs(b)
        return q if (a < 0) == (b < 0) else -q
    t = {
        "Assign": lambda: ok(r), "LogicalOr": lambda: ok(int(l != 0 or r != 0)), "LogicalAnd": lambda: ok(int(l != 0 and r != 0)),
        "BitwiseOr": lambda: ok(l | r), "BitwiseXor": lambda: ok(l ^ r), "BitwiseAnd": lambda: ok(l & r),
        "EqualTo": lambda: ok(int(l == r)), "NotEqualTo": lambda: ok(int(l != r)), "LessThan": lambda: ok(int(l < r)),
        "GreaterThan": lambda: ok(int(l > r)), "LessThanOrEqualTo": lambda: ok(int(l <= r)),
        "GreaterThanOrEqualTo": lambda: ok(int(l >= r)), "Add": lambda: ok(l + r), "Subtract": lambda: ok(l - r),
        "Multiply": lambda: ok(l * r),
        "Divide": lambda: "err DivisionByZero" if r == 0 else ok(tdiv(l, r)),
        "Remainder": lambda: "err DivisionByZero" if r == 0 else ("err Overflow" if (l == MIN and r == -1) else ok(l - tdiv(l, r) * r)),
        "ShiftLeft": lambda: "err LeftShiftingNegative" if l < 0 else ("err ReverseShifting" if r < 0 else ("err Overflow" if r >= 64 else ok(l << r))),
        "ShiftRight": lambda: "err ReverseShifting" if r < 0 else ("err Overflow" if r >= 64 else ok(l >> r)),
    }
    return t[plain]()


def main():
    ap = argparse.ArgumentParser()
    ap.add_argument("--mir", required=True)
    ap.add_argument("--src", required=True)
    ap.add_argument("--driver", required=True)
    ap.add_argument("--out", required=True)
    a = ap.parse_args()
    t0 = time.time()
    res = {"status": "ok", "violations": [], "inconclusive": [], "stats": {}}
    stats = {"queries": 0, "solver_s": 0.0, "disagree": []}
    try:
        with open(a.mir) as f:
            fns = mir2smt.parse_mir(f.read())
        with open(a.src) as f:
            variants = mir2smt.enum_variants(f.read(), "BinaryOperator")
        if len(variants) != 29:
            raise UnsupportedMir("BinaryOperator has %d variants (encoder knows 29)" % len(variants))
        l, r = z3.BitVec("lhs", W), z3.BitVec("rhs", W)
        op = z3.BitVec("op", 8)
        ex = Exec(fns)
        frame0 = {"_loc": Opaque("location")}
        paths = ex.run_fn("binary_result", [Adt("Integer", [Int(l, "i64")]), Adt("Integer", [Int(r, "i64")]),
                                            SymEnum(op, len(variants)), Ref(frame0, "_loc")],
                          [z3.ULT(op, z3.BitVecVal(len(variants), 8))])
        res["paths"] = len(paths)
        res["functions_translated"] = sorted(ex.fns_translated)
        res["std_functions_modelled"] = sorted(ex.calls_modelled)
        tmp = tempfile.mkdtemp(prefix="e3-", dir=os.path.dirname(a.out))
        # 1. totality: the path conditions cover every (op, lhs, rhs)
        cover = z3.Or(*[z3.And(*pc) for pc, _ in paths])
        v, _ = dual_check([z3.ULT(op, z3.BitVecVal(len(variants), 8)), z3.Not(cover)], "totality", tmp, stats)
        if v != "unsat":
            res["inconclusive"].append("path conditions do not provably cover all inputs (%s)" % v)
        # 2. per operator: every path agrees with the specification
        obligations = []
        for k, name in enumerate(variants):
            sp = spec(name, l, r)
            bad = []
            for pc, val in paths:
                kind = classify(val)
                for sc, want in sp:
                    if kind[0] == "panic":
                        mism = z3.BoolVal(True)
                    elif kind[0] != want[0]:
                        mism = z3.BoolVal(True)
                    elif kind[0] == "ok":
                        mism = kind[1] != want[1]
                    else:
                        mism = z3.BoolVal(kind[1] != want[1])
                    bad.append(z3.And(*pc, sc, mism))
            q = [op == z3.BitVecVal(k, 8), z3.Or(*bad)]
            verdict, model = dual_check(q, "op_%02d_%s" % (k, name), tmp, stats)
            ob = {"operator": name, "verdict": verdict}
            if verdict == "sat":
                lv = model.eval(l, model_completion=True).as_signed_long()
                rv = model.eval(r, model_completion=True).as_signed_long()
                real = native(a.driver, [(name, lv, rv)])[0]
                want = spec_concrete(name, lv, rv)
                ob.update({"lhs": lv, "rhs": rv, "real": real, "spec": want})
                if real != want:
                    res["violations"].append(ob)
                else:
                    res["inconclusive"].append("E3 model for %s (%d, %d) does not reproduce natively (encoding or spec bug)" % (name, lv, rv))
            elif verdict != "unsat":
                res["inconclusive"].append("operator %s: solvers did not agree on unsat" % name)
            obligations.append(ob)
        res["obligations"] = obligations
        # 3. translator validation: boundary vectors through the encoding AND the real code
        bnd = [0, 1, -1, 2, 63, 64, 65, 62, (1 << 31), MAX, MIN, MIN + 1, MAX - 1, 7, -7]
        triples = [(n, x, y) for n in variants for x in bnd for y in bnd]
        real = native(a.driver, triples)
        mism = 0
        for (n, x, y), rv in zip(triples, real):
            if rv != spec_concrete(n, x, y):
                mism += 1
                if len(res["violations"]) < 5:
                    res["violations"].append({"operator": n, "lhs": x, "rhs": y, "real": rv, "spec": spec_concrete(n, x, y),
                                              "verdict": "native-validation"})
        # evaluate the encoding itself on a subset of the vectors
        enc_bad = 0
        sub = [(n, x, y) for n in variants for x in (0, -1, MIN, MAX, 5) for y in (0, -1, 1, 63, 64, MIN)]
        for n, x, y in sub:
            k = variants.index(n)
            got = None
            for pc, val in paths:
                s = z3.Solver()
                s.add(op == k, l == x, r == y, *pc)
                if s.check() == z3.sat:
                    kind = classify(val)
                    if kind[0] == "ok":
                        got = "ok %d" % s.model().eval(kind[1], model_completion=True).as_signed_long()
                    else:
                        got = "%s %s" % ("err" if kind[0] == "err" else "panic", kind[1])
                    break
            if got != spec_concrete(n, x, y):
                enc_bad += 1
        res["validation"] = {"native_vectors": len(triples), "native_mismatches": mism,
                             "encoding_vectors": len(sub), "encoding_mismatches": enc_bad}
        if enc_bad and not res["violations"]:
            res["inconclusive"].append("%d concrete vectors evaluate differently in the encoding than in the spec" % enc_bad)
        # 4. planted mutant: a wrong specification must come back sat
        wrong = spec("Subtract", l, r)
        bad = []
        for pc, val in paths:
            kind = classify(val)
            for sc, want in wrong:
                if kind[0] != want[0]:
                    mm = z3.BoolVal(True)
                elif kind[0] == "ok":
                    mm = kind[1] != want[1]
                else:
                    mm = z3.BoolVal(kind[1] != want[1])
                bad.append(z3.And(*pc, sc, mm))
        s = z3.Solver()
        s.add(op == variants.index("Add"), z3.Or(*bad))
        res["planted_mutant_sat"] = s.check() == z3.sat
        if not res["planted_mutant_sat"]:
            res["inconclusive"].append("planted-mutant self-test did not come back sat")
    except UnsupportedMir as e:
        res["inconclusive"].append("MIR outside the supported subset: %s" % e)
    if stats["disagree"]:
        res["inconclusive"].append("solver disagreement: " + "; ".join(stats["disagree"][:3]))
    res["stats"] = {"queries": stats["queries"], "solver_s": round(stats["solver_s"], 2), "wall_s": round(time.time() - t0, 1)}
    with open(a.out, "w") as f:
        json.dump(res, f, indent=1)
    print("E3: %s paths, %d queries, %.1fs solver, %d violations, %d inconclusive"
          % (res.get("paths"), stats["queries"], stats["solver_s"], len(res["violations"]), len(res["inconclusive"])))
    for t in res["inconclusive"][:5]:
        print("  inconclusive: " + t)


if __name__ == "__main__":
    main()
